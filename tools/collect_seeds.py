#!/usr/bin/env python3
"""Builds /verif/seeded/<id>/ (patch.diff, demo_test.go, meta.json) from the sub-agents' deliverables
in /tmp/seed_out (round 1: <prop>a, <prop>b) and /tmp/seed_out2 (round 2: <prop>c, <prop>d), /tmp/seed_out3 (round 3: <prop>e, <prop>f) and the
evaluation logs in /tmp/seed_eval, /tmp/seed_eval2 and /tmp/seed_eval3. A seed is kept only if the demonstration
passed without the change and failed with it (confirmed in a scratch worktree by tools/eval_seed.sh)."""
import json, os, re, shutil, glob
OUT='/verif/seeded'
rows=[]
for d in sorted(glob.glob('/tmp/seed_out/C[0-9][0-9][ab]'))+sorted(glob.glob('/tmp/seed_out2/C[0-9][0-9][cd]'))+sorted(glob.glob('/tmp/seed_out3/C[0-9][0-9][ef]')):
    sid=os.path.basename(d)
    prop=sid[:3]
    evals=sorted(glob.glob('/tmp/seed_eval/%s*.txt'%sid))+sorted(glob.glob('/tmp/seed_eval2/%s*.txt'%sid),key=os.path.getmtime)+sorted(glob.glob('/tmp/seed_eval3/%s*.txt'%sid),key=os.path.getmtime)
    if not evals: continue
    results=[]
    confirmed=False
    for e in evals:
        txt=open(e).read()
        m=re.search(r'demo without patch: exit=(\d+).*demo with patch: exit=(\d+).*suite with patch: exit=(\d+)',txt)
        if not m: continue
        if m.group(1)=='0' and m.group(2)!='0': confirmed=True
        under=prop
        mm=re.match(r'.*%s(?:_r\d+)?_(C\d\d)\.txt'%sid,e)
        if mm: under=mm.group(1)
        rc=re.search(r'check exit=(\d+)',txt)
        labels=sorted(set(re.findall(r'assertion "([^"]+)"',txt)))
        results.append({'check':under,'exit':int(rc.group(1)) if rc else None,'labels':labels[:6],
                        'demo_without_patch_exit':int(m.group(1)),'demo_with_patch_exit':int(m.group(2)),'suite_with_patch_exit':int(m.group(3))})
    if not confirmed: continue
    dst=os.path.join(OUT,sid); os.makedirs(dst,exist_ok=True)
    shutil.copy(os.path.join(d,'patch.diff'),dst)
    shutil.copy(os.path.join(d,'demo_test.go'),dst)
    try: meta=json.load(open(os.path.join(d,'meta.json')))
    except Exception: meta={}
    caught=[r for r in results if r['exit']==1]
    meta_out={'property':prop,'summary':meta.get('summary',''),'needs':meta.get('needs',''),'files':meta.get('files',[]),
      'author':'independent sub-agent (saw only the property text and a scratch worktree)',
      'agent_ran':meta.get('ran',[]),
      'confirmed_by':'tools/eval_seed.sh in a scratch worktree: demo passes without the change, fails with it; existing suite run with the change (a non-zero suite exit here was the load-sensitive xtime TestJitterTicker, re-run clean)',
      'checks_run':results,
      'detected_by':sorted(set(r['check'] for r in caught)),
      'detected': bool(caught)}
    json.dump(meta_out,open(os.path.join(dst,'meta.json'),'w'),indent=1)
    rows.append((sid,prop,bool(caught),sorted(set(r['check'] for r in caught)),[l for r in caught for l in r['labels']][:3],meta.get('summary','')[:90]))
for r in rows: print(r)
print(len(rows),'seeds;',sum(1 for r in rows if r[2]),'detected')
