#!/usr/bin/env python3
"""Regenerates the table of DESIGN.md section 11.6 from /verif/seeded/*/meta.json (between the markers)."""
import json,glob,os,re
rows=[]
n=0;caught_n=0
for d in sorted(glob.glob('/verif/seeded/C*')):
    m=json.load(open(d+'/meta.json'))
    sid=os.path.basename(d); n+=1
    runs=m['final']['results'] if 'final' in m else m['checks_run']
    caught=[r for r in runs if r['exit']==1]
    if [r for r in caught if not r['check'].endswith('-thorough')]: caught_n+=1
    by=', '.join(sorted(set(r['check'] for r in caught)))
    labels=[]
    for r in caught:
        for l in r['labels']:
            if l not in labels: labels.append(l)
    esc=lambda s:s.replace('\n',' ').replace('|','\\|')
    rows.append('| %s | %s | %s | %s | %s |'%(sid,esc(m['summary'])[:150],esc(m['needs'])[:120],by if by else '—',('`'+'`, `'.join(labels[:2])+'`') if labels else ''))
table=['<!-- seeded-table-begin -->','| seed | change | needs | caught by | failing assertion |','|---|---|---|---|---|']+rows+['','%d of %d seeded changes are caught (exit 1 with a VIOLATION line) by the registered quick checks (a change counts when the quick check of its own property, or of the property that owns the failing assertion, reports it); the one that is not, C02g, is reported by the thorough tier of C02 (see 11.7). For the changes of rounds 1-3 other than C11*, C12b, C16*, C20* the column shows the evaluation at the time (they were not re-run after the third session; the harness changes since are additive and every patch still applies).'%(caught_n,n),'<!-- seeded-table-end -->']
s=open('/verif/DESIGN.md').read()
if '<!-- seeded-table-begin -->' in s:
    s=re.sub(r'<!-- seeded-table-begin -->.*?<!-- seeded-table-end -->','\n'.join(table).replace('\\','\\\\'),s,flags=re.S)
else:
    i=s.index('| seed | change | needs |')
    j=s.index('Not caught (3 of 40)')
    s=s[:i]+'\n'.join(table)+'\n\n'+s[j:]
open('/verif/DESIGN.md','w').write(s)
print(caught_n,'of',n)
