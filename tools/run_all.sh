#!/bin/sh
# Runs every claimed check of MANIFEST.json in the given tier and prints one summary line each.
tier=${1:-quick}
cd /verif
for p in $(python3 -c "import json;print(' '.join(c['property_id'] for c in json.load(open('MANIFEST.json'))['checks']))"); do
  s=$(date +%s)
  /verif/bin/vcheck run $p --tier $tier > /tmp/runall_$p.log 2>&1
  rc=$?
  e=$(date +%s)
  echo "$p exit=$rc $((e-s))s $(grep -c '^VIOLATION' /tmp/runall_$p.log) violations $(grep -c '^KNOWN-FINDING' /tmp/runall_$p.log) known $(grep -c '^INCONCLUSIVE' /tmp/runall_$p.log) inconclusive"
done
