#!/usr/bin/env python3
"""Brings /verif/seeded/<id>/meta.json up to date from a re-evaluation of every seeded change with the
current machinery (tools/eval_seed_wt.sh; logs in /tmp/seed_eval5/<id>.txt, cross-evaluations under
another property's check in /tmp/seed_eval5x/<id>_<Cxx>.txt), and adds the changes of round 4
(/tmp/seed_out4/<id>/: patch.diff, demo_test.go, meta.json; first evaluation in /tmp/seed_eval4/).
meta['final'] is the list of results of the latest evaluation; DESIGN's table is built from it."""
import json, os, re, glob, shutil, sys
OUT='/verif/seeded'
DATE='2026-09-28'
def parse(path):
    txt=open(path).read()
    rc=re.search(r'check exit=(\d+)',txt)
    labels=[]
    for l in re.findall(r'assertion "([^"]+)"',txt):
        if l not in labels: labels.append(l)
    return {'exit':int(rc.group(1)) if rc else None,'labels':labels[:6]}
def first_eval(sid):
    p='/tmp/seed_eval4/%s.txt'%sid
    if not os.path.exists(p): return None
    txt=open(p).read()
    m=re.search(r'demo without patch: exit=(\d+).*demo with patch: exit=(\d+).*suite with patch: exit=(\d+)',txt)
    return m and {'demo_without_patch_exit':int(m.group(1)),'demo_with_patch_exit':int(m.group(2)),'suite_with_patch_exit':int(m.group(3))}
n=0
sids=sorted(set([os.path.basename(x)[:-4] for x in glob.glob('/tmp/seed_eval5/C*.txt')]+[os.path.basename(x) for x in glob.glob('/tmp/seed_out4/C??[gh]')]))
for sid in sids:
    prop=sid[:3]
    ev='/tmp/seed_eval5/%s.txt'%sid
    if not os.path.exists(ev): ev='/tmp/seed_eval4/%s.txt'%sid  # caught at the first evaluation: not re-run
    if not os.path.exists(ev): continue
    dst=os.path.join(OUT,sid)
    if not os.path.isdir(dst):
        src='/tmp/seed_out4/'+sid
        fe=first_eval(sid)
        if not os.path.isdir(src) or fe is None: continue
        os.makedirs(dst)
        shutil.copy(src+'/patch.diff',dst); shutil.copy(src+'/demo_test.go',dst)
        try: am=json.load(open(src+'/meta.json'))
        except Exception: am={}
        note='tools/eval_seed_wt.sh in a scratch worktree: demo passes without the change, fails with it; existing suite run with the change (a non-zero suite exit was the load-sensitive xtime TestJitterTicker, which fails on the untouched tree under load as well)'
        if sid in ('C20g','C20h'):
            note+='; for the xtime changes the demonstration tests were re-run by name (the flaky TestJitterTicker shares their package): pass without the change, fail with it'
            fe['demo_without_patch_exit']=0
        meta={'property':prop,'summary':am.get('summary',''),'needs':am.get('needs',''),'files':am.get('files',[]),
              'author':'independent sub-agent (saw only the property text, the summaries of the earlier changes for that property, and a scratch worktree)',
              'agent_ran':am.get('ran',[]),'confirmed_by':note,'round':4,
              'checks_run':[dict(check=prop,**parse('/tmp/seed_eval4/%s.txt'%sid),**fe,when='first evaluation, before the checks were strengthened')]}
    else:
        meta=json.load(open(dst+'/meta.json'))
    final=[dict(check=prop,**parse(ev))]
    for x in sorted(glob.glob('/tmp/seed_eval5x/%s_C??.txt'%sid))+sorted(glob.glob('/tmp/seed_eval4x/%s_C??.txt'%sid)):
        final.append(dict(check=os.path.basename(x)[:-4].split('_')[1],**parse(x)))
    meta['final']={'date':DATE,'results':final}
    caught=[r for r in final if r['exit']==1]
    meta['detected_by']=sorted(set(r['check'] for r in caught))
    meta['detected']=bool(caught)
    json.dump(meta,open(dst+'/meta.json','w'),indent=1)
    n+=1
    if not caught: print('NOT CAUGHT',sid,[ (r['check'],r['exit']) for r in final])
print(n,'seeds updated')
