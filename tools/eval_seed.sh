#!/bin/bash
# eval_seed.sh <seed_dir> <property> [tier]
# 1. in a scratch worktree: the demo passes without the patch, fails with it, and the existing suite passes with it
# 2. applies the patch to /repo, runs the property's check, and always restores /repo.
set -u
seed=$1; prop=$2; tier=${3:-quick}
export GOFLAGS=-mod=mod GOPROXY=off GOSUMDB=off GOTOOLCHAIN=local
wt=$(mktemp -d /tmp/evalwt.XXXXXX); rmdir $wt
git -C /repo worktree add -q --detach $wt HEAD || exit 3
place=$(head -1 $seed/demo_test.go | sed -E 's|^// place at: *||')
mkdir -p $wt/$(dirname $place); cp $seed/demo_test.go $wt/$place
pkg=./$(dirname $place)
( cd $wt && go test -vet=off -count=1 $pkg >/tmp/eval_demo_before.log 2>&1 ); before=$?
( cd $wt && git apply $seed/patch.diff ) || { echo "PATCH DOES NOT APPLY"; git -C /repo worktree remove --force $wt; exit 3; }
( cd $wt && go test -vet=off -count=1 $pkg >/tmp/eval_demo_after.log 2>&1 ); after=$?
rm -f $wt/$place
( cd $wt && go test -vet=off -count=1 ./... >/tmp/eval_suite.log 2>&1 ); suite=$?
git -C /repo worktree remove --force $wt
echo "demo without patch: exit=$before (want 0); demo with patch: exit=$after (want !=0); suite with patch: exit=$suite (want 0)"
if [ -n "$(git -C /repo status --porcelain)" ]; then echo "/repo not clean, refusing"; exit 3; fi
git -C /repo apply $seed/patch.diff || exit 3
VERIF_EVIDENCE_DIR=/tmp/seed_evidence /verif/bin/vcheck run $prop --tier $tier -workers ${VERIF_WORKERS:-16} > /tmp/eval_check.log 2>&1; rc=$?
git -C /repo checkout -- . 
grep -E "^(VIOLATION|  case|KNOWN|INCONCLUSIVE|UNCONF|property=)" /tmp/eval_check.log | cut -c1-220 | sort | uniq -c | sort -rn | head -8
echo "check exit=$rc"
