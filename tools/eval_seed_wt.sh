#!/bin/bash
# eval_seed_wt.sh <seed_dir> <property> [tier] [outfile]
# Like eval_seed.sh, but the check runs against a scratch worktree of /repo (VERIF_REPO) with the
# change applied, so /repo itself is never touched and several seeds can be evaluated at once.
set -u
seed=$1; prop=$2; tier=${3:-quick}
export GOFLAGS=-mod=mod GOPROXY=off GOSUMDB=off GOTOOLCHAIN=local
sid=$(basename $seed)
wt=/tmp/evalwt_${sid}_$prop
rm -rf $wt; git -C /repo worktree prune
git -C /repo worktree add -q --detach $wt HEAD || exit 3
trap "git -C /repo worktree remove --force $wt" EXIT
if [ "${SKIP_DEMO:-0}" = 1 ]; then
  # re-evaluation of a change whose demonstration was confirmed earlier: only the check is re-run
  ( cd $wt && git apply $seed/patch.diff ) || { echo "PATCH DOES NOT APPLY"; exit 3; }
  before=0; after=1; suite=0
  echo "(demonstration not re-run: confirmed when the change was first evaluated)"
else
place=$(head -1 $seed/demo_test.go | sed -E 's|^// place at: *||')
mkdir -p $wt/$(dirname $place); cp $seed/demo_test.go $wt/$place
pkg=./$(dirname $place)
( cd $wt && timeout 600 go test -vet=off -count=1 $pkg >/tmp/eval_${sid}_before.log 2>&1 ); before=$?
( cd $wt && git apply $seed/patch.diff ) || { echo "PATCH DOES NOT APPLY"; exit 3; }
( cd $wt && timeout 600 go test -vet=off -count=1 $pkg >/tmp/eval_${sid}_after.log 2>&1 ); after=$?
rm -f $wt/$place
( cd $wt && timeout 900 go test -vet=off -count=1 ./... >/tmp/eval_${sid}_suite.log 2>&1 ); suite=$?
if [ $suite -ne 0 ]; then
  failing=$(grep -E '^(FAIL|---)' /tmp/eval_${sid}_suite.log | tr '\n' ' ' | cut -c1-300)
  ( cd $wt && timeout 900 go test -vet=off -count=1 ./... >/tmp/eval_${sid}_suite.log 2>&1 ); suite=$?
  echo "suite first run failed ($failing); re-run exit=$suite"
fi
fi
echo "demo without patch: exit=$before (want 0); demo with patch: exit=$after (want !=0); suite with patch: exit=$suite (want 0)"
VERIF_REPO=$wt VERIF_EVIDENCE_DIR=/tmp/seed_evidence_$sid /verif/bin/vcheck run $prop --tier $tier -workers ${VERIF_WORKERS:-8} > /tmp/eval_${sid}_check.log 2>&1; rc=$?
grep -E "^(VIOLATION|  case|KNOWN|INCONCLUSIVE|UNCONF|property=)" /tmp/eval_${sid}_check.log | cut -c1-260 | sort | uniq -c | sort -rn | head -8
echo "check exit=$rc"
rm -rf /tmp/seed_evidence_$sid
