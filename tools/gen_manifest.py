#!/usr/bin/env python3
"""Regenerates /verif/MANIFEST.json from tools/manifest_props.json (claimed properties and notes)."""
import json, os
V = os.path.dirname(os.path.dirname(os.path.abspath(__file__)))
props = json.load(open(os.path.join(V, "tools", "manifest_props.json")))
all_ids = [json.loads(l)["id"] for l in open(os.path.join(V, "properties.jsonl")) if l.strip()]
checks, na = [], []
for pid in all_ids:
    p = props.get(pid, {})
    if p.get("claimed"):
        checks.append({
            "property_id": pid,
            "quick_cmd": f"/verif/bin/vcheck run {pid} --tier quick",
            "thorough_cmd": f"/verif/bin/vcheck run {pid} --tier thorough",
            "evidence_file": f"/verif/evidence/{pid}.json",
            "replay_cmd_template": "/verif/bin/vcheck replay {path}",
            "engine": "gosym",
            "level_claimed": {
                "category": "model_checking",
                "text": p["text"],
                "design_ref": p.get("design_ref", "DESIGN.md §4 " + pid),
            },
            "level_note": p["note"],
            "technique": p.get("technique", "bounded symbolic execution of the Go SSA (own engine gosym) + SMT (z3 5.1): every branch and assertion decided by the solver over symbolic inputs; counterexamples replayed natively"),
        })
    else:
        na.append({"property_id": pid, "reason": p.get("reason", "check not built yet in this session (solver-based harness pending); no other technique is substituted")})
m = {
    "version": 1,
    "setup_cmd": "cd /verif/engine && GOFLAGS=-mod=mod GOPROXY=off GOSUMDB=off GOTOOLCHAIN=local go build -o /verif/bin/vcheck ./cmd/vcheck && /verif/bin/vcheck selftest",
    "hooks": {
        "guard": "verif",
        "enable": "no committed hooks: harnesses are injected in-package through go/packages and `go test -overlay` overlays (files /repo/<pkg>/zz_verif_*.go exist only virtually)",
        "baseline_off_cmd": "cd /repo && go test -vet=off -count=1 ./...",
        "source_commits": [],
        "add_only": True,
    },
    "engines": [{
        "name": "gosym",
        "path": "/verif/engine",
        "serves_properties": [c["property_id"] for c in checks],
        "kind_free_text": "path-based symbolic executor for Go SSA (x/tools go/ssa, generics instantiated) with bit-vector SMT queries over one incremental z3 pipe per worker; stateless DFS by re-execution; goroutine scheduler with sleep sets; native replay of solver models via go test -overlay",
    }],
    "checks": checks,
    "not_applicable": na,
    "notes": "All checks use one technique: bounded symbolic execution of the real code's SSA with an SMT solver deciding every branch and assertion. Bounds are listed in each evidence file (coverage.bounds). Exit 2 = inconclusive (never reported as success).",
}
json.dump(m, open(os.path.join(V, "MANIFEST.json"), "w"), indent=1)
print("claimed:", [c["property_id"] for c in checks])
