package main

import "fmt"

func cmdRun(argv []string) int      { fmt.Println("todo"); return 2 }
func cmdReplay(argv []string) int   { fmt.Println("todo"); return 2 }
func cmdSelftest(argv []string) int { fmt.Println("todo"); return 2 }
