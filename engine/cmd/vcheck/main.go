// vcheck drives the symbolic executor: it loads /repo's current working tree together with the
// overlay harnesses of one property, runs every registered case on a pool of workers (one
// solver process each), replays counterexamples natively, filters known findings and writes
// the evidence file.
package main

import (
	"encoding/json"
	"flag"
	"fmt"
	"os"
	"path/filepath"
	"regexp"
	"runtime/debug"
	"sort"
	"strconv"
	"strings"
	"sync"
	"time"

	"golang.org/x/tools/go/ssa"

	"verif/engine/symex"
)

var (
	repoDir  = envOr("VERIF_REPO", "/repo")
	verifDir = envOr("VERIF_DIR", "/verif")
)

func envOr(k, d string) string {
	if v := os.Getenv(k); v != "" {
		return v
	}
	return d
}

type caseSpec struct {
	Prop   string
	Tier   string // quick | thorough
	Entry  string
	Args   [][]int64 // per parameter: candidate values
	Opts   map[string]string
	PkgDir string
	File   string
}

type harnessFile struct {
	Path   string
	PkgDir string
	Name   string
	Data   []byte
	Props  map[string]bool
	Cases  []caseSpec
	Variants map[string][]rewrite
}

// rewrite: replace Old by New in the repository file File (exact text, must occur exactly once).
type rewrite struct {
	File, Old, New string
}

var reCase = regexp.MustCompile(`^//verif:case\s+(\S+)\s+(quick|thorough)\s+(\S+)(.*)$`)
var rePkg = regexp.MustCompile(`^//verif:pkg\s+(\S+)`)
var reVariant = regexp.MustCompile(`^//verif:variant\s+(\S+)\s+(\S+)\s+"(.*)"\s+=>\s+"(.*)"$`)

func parseRange(s string) ([]int64, error) {
	var out []int64
	for _, part := range strings.Split(s, ",") {
		if i := strings.Index(part, ".."); i > 0 {
			a, err1 := strconv.ParseInt(part[:i], 10, 64)
			b, err2 := strconv.ParseInt(part[i+2:], 10, 64)
			if err1 != nil || err2 != nil {
				return nil, fmt.Errorf("bad range %q", part)
			}
			for v := a; v <= b; v++ {
				out = append(out, v)
			}
		} else {
			v, err := strconv.ParseInt(part, 10, 64)
			if err != nil {
				return nil, fmt.Errorf("bad value %q", part)
			}
			out = append(out, v)
		}
	}
	return out, nil
}

func loadHarnesses() ([]*harnessFile, error) {
	var out []*harnessFile
	root := filepath.Join(verifDir, "harness")
	err := filepath.Walk(root, func(p string, info os.FileInfo, err error) error {
		if err != nil || info.IsDir() || !strings.HasSuffix(p, ".go") {
			return err
		}
		if strings.HasPrefix(p, filepath.Join(root, "common")) {
			return nil
		}
		data, err := os.ReadFile(p)
		if err != nil {
			return err
		}
		h := &harnessFile{Path: p, Name: filepath.Base(p), Data: data, Props: map[string]bool{}}
		for _, line := range strings.Split(string(data), "\n") {
			line = strings.TrimSpace(line)
			if m := rePkg.FindStringSubmatch(line); m != nil {
				h.PkgDir = m[1]
			}
			if m := reVariant.FindStringSubmatch(line); m != nil {
				if h.Variants == nil {
					h.Variants = map[string][]rewrite{}
				}
				h.Variants[m[1]] = append(h.Variants[m[1]], rewrite{File: m[2], Old: m[3], New: m[4]})
			}
			if m := reCase.FindStringSubmatch(line); m != nil {
				cs := caseSpec{Prop: m[1], Tier: m[2], Entry: m[3], Opts: map[string]string{}, File: h.Name}
				for _, f := range strings.Fields(m[4]) {
					if strings.HasPrefix(f, "@") {
						kv := strings.SplitN(f[1:], "=", 2)
						if len(kv) == 2 {
							cs.Opts[kv[0]] = kv[1]
						}
						continue
					}
					vals, err := parseRange(f)
					if err != nil {
						return fmt.Errorf("%s: %v", p, err)
					}
					cs.Args = append(cs.Args, vals)
				}
				h.Cases = append(h.Cases, cs)
				for _, pr := range strings.Split(cs.Prop, ",") {
					h.Props[pr] = true
				}
			}
		}
		if h.PkgDir == "" {
			return fmt.Errorf("%s: missing //verif:pkg", p)
		}
		for i := range h.Cases {
			h.Cases[i].PkgDir = h.PkgDir
		}
		out = append(out, h)
		return nil
	})
	sort.Slice(out, func(i, j int) bool { return out[i].Path < out[j].Path })
	return out, err
}

type job struct {
	Spec  caseSpec
	Args  []int64
	Index int
}

func expand(cs caseSpec) [][]int64 {
	res := [][]int64{{}}
	for _, vals := range cs.Args {
		var next [][]int64
		for _, r := range res {
			for _, v := range vals {
				next = append(next, append(append([]int64(nil), r...), v))
			}
		}
		res = next
	}
	return res
}

func pkgNameOf(repo, pkgDir string) (string, error) {
	dir := filepath.Join(repo, pkgDir)
	ents, err := os.ReadDir(dir)
	if err != nil {
		return "", err
	}
	re := regexp.MustCompile(`(?m)^package\s+(\w+)`)
	for _, e := range ents {
		if strings.HasSuffix(e.Name(), ".go") && !strings.HasSuffix(e.Name(), "_test.go") {
			data, err := os.ReadFile(filepath.Join(dir, e.Name()))
			if err != nil {
				continue
			}
			if m := re.FindSubmatch(data); m != nil {
				return string(m[1]), nil
			}
		}
	}
	return "", fmt.Errorf("no Go package in %s", dir)
}

// buildOverlay returns the overlay map and the list of package patterns for the harness files.
// applyVariant adds the rewritten repository files of the named variant to the overlay.
func applyVariant(hs []*harnessFile, variant string, overlay map[string][]byte) error {
	if variant == "" {
		return nil
	}
	found := false
	for _, h := range hs {
		for _, rw := range h.Variants[variant] {
			found = true
			path := filepath.Join(repoDir, rw.File)
			data, ok := overlay[path]
			if !ok {
				var err error
				data, err = os.ReadFile(path)
				if err != nil {
					return err
				}
			}
			if strings.Count(string(data), rw.Old) != 1 {
				return fmt.Errorf("variant %s: text %q does not occur exactly once in %s", variant, rw.Old, rw.File)
			}
			overlay[path] = []byte(strings.Replace(string(data), rw.Old, rw.New, 1))
		}
	}
	if !found {
		return fmt.Errorf("unknown variant %q", variant)
	}
	return nil
}

func buildOverlay(hs []*harnessFile, native bool, variant string) (map[string][]byte, []string, error) {
	overlay := map[string][]byte{}
	if err := applyVariant(hs, variant, overlay); err != nil {
		return nil, nil, err
	}
	pkgs := map[string]bool{}
	tmplName := "intrinsics_sym.go.tmpl"
	if native {
		tmplName = "intrinsics_native.go.tmpl"
	}
	tmpl, err := os.ReadFile(filepath.Join(verifDir, "harness", "common", tmplName))
	if err != nil {
		return nil, nil, err
	}
	for _, h := range hs {
		dir := filepath.Join(repoDir, h.PkgDir)
		overlay[filepath.Join(dir, "zz_verif_"+h.Name)] = h.Data
		if !pkgs[h.PkgDir] {
			pkgs[h.PkgDir] = true
			name, err := pkgNameOf(repoDir, h.PkgDir)
			if err != nil {
				return nil, nil, err
			}
			overlay[filepath.Join(dir, "zz_verif_intrinsics.go")] = []byte(strings.Replace(string(tmpl), "PKGNAME", name, 1))
		}
	}
	var pats []string
	for p := range pkgs {
		pats = append(pats, p)
	}
	sort.Strings(pats)
	return overlay, pats, nil
}

type caseResult struct {
	Job    job
	Report *symex.Report
	Err    string
}

// knownLabelHook: set by `run` so that only violations that are not recorded known findings start
// the early-stop grace period of a case.
var knownLabelHook func(entry, label string, args []int64) bool

func runJobs(l *symex.Loaded, hs []*harnessFile, jobs []job, workers int, cfg symex.Config, verbose bool) []caseResult {
	results := make([]caseResult, len(jobs))
	ch := make(chan int)
	var wg sync.WaitGroup
	var mu sync.Mutex
	done := 0
	for w := 0; w < workers; w++ {
		wg.Add(1)
		go func() {
			defer wg.Done()
			var ex *symex.Exec
			defer func() {
				if ex != nil {
					ex.Close()
				}
			}()
			for i := range ch {
				j := jobs[i]
				res := caseResult{Job: j}
				func() {
					defer func() {
						if r := recover(); r != nil {
							res.Err = fmt.Sprintf("engine panic: %v", r)
							if os.Getenv("VERIF_DEBUG") != "" {
								fmt.Fprintf(os.Stderr, "%s\n", debug.Stack())
							}
							if ex != nil {
								ex.Close()
								ex = nil
							}
						}
					}()
					c := cfg
					if knownLabelHook != nil {
						entry, args := j.Spec.Entry, j.Args
						c.KnownLabel = func(label string) bool { return knownLabelHook(entry, label, args) }
					}
					if v, ok := j.Spec.Opts["unwind"]; ok {
						c.Unwind, _ = strconv.Atoi(v)
					}
					if v, ok := j.Spec.Opts["hb"]; ok {
						c.NoRaceCheck = v == "0"
					}
					if v, ok := j.Spec.Opts["arith"]; ok {
						c.ArithFirst = v != "0"
					}
					if v, ok := j.Spec.Opts["fires"]; ok {
						c.MaxTimerFires, _ = strconv.Atoi(v)
					}
					if v, ok := j.Spec.Opts["prompt"]; ok {
						c.PromptTime = v != "0"
					}
					if v, ok := j.Spec.Opts["preempt"]; ok {
						c.PreemptBound, _ = strconv.Atoi(v)
					}
					if v, ok := j.Spec.Opts["maporders"]; ok {
						c.MapOrders = v != "0"
					}
					// a fresh executor (and solver process) per case keeps term tables small
					if ex != nil {
						ex.Close()
						ex = nil
					}
					var err error
					ex, err = symex.NewExec(l.Prog, c)
					if err != nil {
						res.Err = err.Error()
						return
					}
					var fn = findEntry(l, j.Spec)
					if fn == nil {
						res.Err = "entry function not found: " + j.Spec.Entry
						return
					}
					res.Report = ex.Run(fn, j.Args)
				}()
				results[i] = res
				mu.Lock()
				done++
				if verbose {
					st := "ok"
					if res.Err != "" {
						st = "ERR " + res.Err
					} else if len(res.Report.Violations) > 0 {
						st = fmt.Sprintf("VIOL %d", len(res.Report.Violations))
					} else if len(res.Report.Inconclusive) > 0 {
						st = "INCONCLUSIVE " + res.Report.Inconclusive[0]
					}
					p := 0
					var w float64
					if res.Report != nil {
						p = res.Report.Paths
						w = res.Report.WallS
					}
					fmt.Fprintf(os.Stderr, "[%d/%d] %s%v paths=%d %.1fs %s\n", done, len(jobs), j.Spec.Entry, j.Args, p, w, st)
				}
				mu.Unlock()
			}
		}()
	}
	for i := range jobs {
		ch <- i
	}
	close(ch)
	wg.Wait()
	return results
}

func main() {
	if len(os.Args) < 2 {
		fmt.Fprintln(os.Stderr, "usage: vcheck run <property> [--tier quick|thorough] | case ... | list")
		os.Exit(2)
	}
	switch os.Args[1] {
	case "run":
		os.Exit(cmdRun(os.Args[2:]))
	case "case":
		os.Exit(cmdCase(os.Args[2:]))
	case "replay":
		os.Exit(cmdReplay(os.Args[2:]))
	case "selftest":
		os.Exit(cmdSelftest(os.Args[2:]))
	default:
		fmt.Fprintln(os.Stderr, "unknown subcommand", os.Args[1])
		os.Exit(2)
	}
}

const modulePath = "github.com/bradenaw/juniper"

func findEntry(l *symex.Loaded, cs caseSpec) *ssa.Function {
	ip := modulePath
	if d := strings.TrimPrefix(cs.PkgDir, "./"); d != "" && d != "." {
		ip += "/" + d
	}
	p := l.Pkgs[ip]
	if p == nil {
		return nil
	}
	return p.Func(cs.Entry)
}

// cmdCase runs a single entry with explicit arguments (debugging aid).
func cmdCase(argv []string) int {
	fs := flag.NewFlagSet("case", flag.ExitOnError)
	file := fs.String("file", "", "harness file name filter (substring)")
	entry := fs.String("entry", "", "entry function")
	args := fs.String("args", "", "comma separated concrete arguments")
	trace := fs.Bool("trace", false, "trace instructions")
	solver := fs.String("solver", "z3-new", "solver")
	unwind := fs.Int("unwind", 80, "unwind bound")
	out := fs.String("json", "", "write report JSON here")
	variant := fs.String("variant", "", "source variant")
	fires := fs.Int("fires", 6, "timer firings per path")
	arith := fs.Bool("arith", false, "arithmetic-first solving (cvc5)")
	choices := fs.String("choices", "", "debug: replay this comma separated choice sequence")
	preempt := fs.Int("preempt", -1, "preemption bound (-1: unbounded with sleep sets)")
	prompt := fs.Bool("prompt", false, "discrete-event time: the clock moves only when nobody can run")
	fs.Parse(argv)
	hs, err := loadHarnesses()
	if err != nil {
		fmt.Fprintln(os.Stderr, err)
		return 2
	}
	var sel []*harnessFile
	for _, h := range hs {
		if strings.Contains(h.Path, *file) && strings.Contains(string(h.Data), "func "+*entry+"(") {
			sel = append(sel, h)
		}
	}
	if len(sel) == 0 {
		fmt.Fprintln(os.Stderr, "no harness file defines", *entry)
		return 2
	}
	sel = withSiblings(hs, sel)
	l, err := loadProgram(sel, false, *variant)
	if err != nil {
		fmt.Fprintln(os.Stderr, err)
		return 2
	}
	var a []int64
	if *args != "" {
		for _, s := range strings.Split(*args, ",") {
			v, _ := strconv.ParseInt(s, 10, 64)
			a = append(a, v)
		}
	}
	cfg := symex.DefaultConfig()
	cfg.Trace = *trace
	cfg.Solver = *solver
	cfg.Unwind = *unwind
	cfg.PreemptBound = *preempt
	cfg.MaxTimerFires = *fires
	cfg.ArithFirst = *arith
	cfg.PromptTime = *prompt
	if b := os.Getenv("VERIF_CASE_BUDGET"); b != "" {
		if sec, err := strconv.Atoi(b); err == nil {
			cfg.CaseBudget = time.Duration(sec) * time.Second
		}
	}
	if *choices != "" {
		for _, c := range strings.Split(*choices, ",") {
			v, _ := strconv.Atoi(strings.TrimSpace(c))
			cfg.ForceChoices = append(cfg.ForceChoices, v)
		}
	}
	j := job{Spec: caseSpec{Entry: *entry, PkgDir: sel[0].PkgDir, Opts: map[string]string{}}, Args: a}
	res := runJobs(l, sel, []job{j}, 1, cfg, true)
	b, _ := json.MarshalIndent(res[0].Report, "", " ")
	if *out != "" {
		os.WriteFile(*out, b, 0o644)
	} else {
		rep := res[0].Report
		if rep != nil {
			fmt.Printf("paths=%d infeasible=%d decisions=%d steps=%d asserts(sym=%d conc=%d) queries(sat=%d unsat=%d unknown=%d fallbacks=%d, %.2fs max %.2fs) wall=%.2fs cachehits=%d badmodels=%d\n",
				rep.Paths, rep.Infeasible, rep.Decisions, rep.Steps, rep.AssertsSym, rep.AssertsConc, rep.Queries.Sat, rep.Queries.Unsat, rep.Queries.Unknown, rep.Queries.Fallbacks*1000+rep.Queries.Cvc5, rep.Queries.Time.Seconds(), rep.Queries.MaxQuery.Seconds(), rep.WallS, rep.Queries.CacheHits, rep.Queries.BadModels)
			var labels []string
			for k := range rep.Discharged {
				labels = append(labels, k)
			}
			sort.Strings(labels)
			for _, k := range labels {
				fmt.Printf("  discharged %-40s %d\n", k, rep.Discharged[k])
			}
			for k, w := range rep.Covers {
				fmt.Printf("  cover %-30s hits=%d\n", k, w.Hits)
			}
			for _, m := range rep.Inconclusive {
				fmt.Println("  INCONCLUSIVE:", m)
			}
			for _, v := range rep.Violations {
				vb, _ := json.Marshal(v)
				fmt.Println("  VIOLATION:", string(vb))
			}
		}
		if res[0].Err != "" {
			fmt.Println("ERR:", res[0].Err)
		}
	}
	return 0
}

// withSiblings adds every harness file of the same package directories (they may share helpers).
func withSiblings(all, sel []*harnessFile) []*harnessFile {
	dirs := map[string]bool{}
	for _, h := range sel {
		dirs[h.PkgDir] = true
	}
	var out []*harnessFile
	for _, h := range all {
		if dirs[h.PkgDir] {
			out = append(out, h)
		}
	}
	return out
}

func loadProgram(hs []*harnessFile, native bool, variant string) (*symex.Loaded, error) {
	overlay, pats, err := buildOverlay(hs, native, variant)
	if err != nil {
		return nil, err
	}
	t0 := time.Now()
	l, err := symex.Load(repoDir, pats, overlay)
	if err != nil {
		return nil, err
	}
	fmt.Fprintf(os.Stderr, "loaded %v variant=%q in %.1fs\n", pats, variant, time.Since(t0).Seconds())
	return l, nil
}
