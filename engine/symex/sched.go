package symex

import (
	"runtime"
	"fmt"
	"os"
	"runtime/debug"
	"sync/atomic"
	"go/types"
	"sort"

	"golang.org/x/tools/go/ssa"

	"verif/engine/smt"
)

// Goroutines of the program under test run as real Go goroutines, strictly one at a time
// (baton passing). Before every visible operation the running goroutine records the
// operation as pending and calls reschedule, which picks the next transition among the
// enabled ones via a choice point (so the schedule is part of the decision trace).

type opKind int

const (
	opNone opKind = iota
	opStart
	opResume
	opSend
	opRecv
	opSelect
	opClose
	opLock
	opRLock
	opUnlock
	opWGWait
	opCondWake
	opAtomic // atomic memory operation / misc visible op on objs
	opGlobal // dependent with everything
	opGhost  // vAtomic block / vAwait: touches harness ghost state only (dependent with other ghost ops)
	opAwait
	opQuiesce
	opSleepUntil
)

type selCase struct {
	ch   *Chan
	send bool
	val  Value
}

type pendingOp struct {
	kind     opKind
	ch       *Chan
	val      Value
	cases    []selCase
	blocking bool
	obj      interface{}   // sync object
	objs     []interface{} // footprint for dependence
	cond     func() bool   // opAwait / opLock-like enabledness
	// a blocking channel operation that found nothing ready is parked: it is completed by the
	// party that arrives later (or by close), never by re-evaluation
	parked      bool
	completed   bool
	result      Value
	recvOk      bool
	caseIdx     int
	closedPanic bool // a parked sender woken by close
}

// waiter is a parked goroutine in a channel's FIFO queue.
type waiter struct {
	g       *Goroutine
	p       *pendingOp
	caseIdx int // -1 for a plain send/recv
	val     Value
}

type Goroutine struct {
	id      int
	wake    chan struct{}
	done    bool
	pending *pendingOp
	fn      string
	atomic  int
	frames  int
	vc      vclock
}

type Chan struct {
	id     int
	cap    int
	buf    []Value
	closed bool
	elemT  types.Type
	recvq  []*waiter
	sendq  []*waiter
}

var ghostObj = new(int)

type sleepEntry struct {
	id   int // goroutine id or event id
	objs []interface{}
	glob bool
}

type runtimeState struct {
	ex       *Exec
	lastArmed *smt.Term // duration argument of the most recent timer creation / Reset (vLastTimerDuration)
	gs       []*Goroutine
	cur      *Goroutine
	aborting bool
	forward  interface{} // engine panic raised in a non-main goroutine
	nextChan int
	preemptions int
	race *raceState
	fires int
	running int32
	log []string
	sleep    []sleepEntry
	exited   chan struct{}
	live     int // OS goroutines started for this path and not yet exited

	// time
	now     *smt.Term
	timers  []*Timer
	contexts int
}

func newRuntimeState(ex *Exec) *runtimeState {
	rt := &runtimeState{ex: ex, exited: make(chan struct{}, 1024)}
	g0 := &Goroutine{id: 0, wake: make(chan struct{}), fn: "main"}
	rt.gs = []*Goroutine{g0}
	rt.cur = g0
	rt.running = 1
	return rt
}

type killed struct{}

func (rt *runtimeState) runMain(f func()) {
	f()
	if rt.forward != nil {
		panic(rt.forward)
	}
}

// killAll terminates every parked goroutine of the path.
func (rt *runtimeState) killAll() {
	rt.aborting = true
	for _, g := range rt.gs[1:] {
		if !g.done {
			g.done = true
			g.wake <- struct{}{} // every such goroutine is at (or about to reach) its receive
		}
	}
	for rt.live > 0 {
		<-rt.exited
		rt.live--
	}
}

func (rt *runtimeState) spawn(fr *frame, fn Value, args []Value) {
	ex := rt.ex
	g := &Goroutine{id: len(rt.gs), wake: make(chan struct{}), pending: &pendingOp{kind: opStart}}
	if f, ok := fn.(*ssa.Function); ok {
		g.fn = f.String()
	} else if c, ok := fn.(*Closure); ok {
		g.fn = c.Fn.String()
	}
	if len(rt.gs) >= 24 {
		ex.boundExceeded("more than 24 goroutines")
	}
	rt.gs = append(rt.gs, g)
	if fr != nil && !ex.cfg.NoRaceCheck {
		rt.hbFork(fr.gor(), g)
	} else if !ex.cfg.NoRaceCheck {
		rt.hbFork(rt.cur, g)
	}
	rt.live++
	go func() {
		defer func() { rt.exited <- struct{}{} }()
		<-g.wake
		if rt.aborting {
			return
		}
		if n := atomic.AddInt32(&rt.running, 1); n != 1 {
			panic(fmt.Sprintf("engine: %d goroutines running after starting g%d", n, g.id))
		}
		defer func() {
			r := recover()
			if r != nil {
				if _, ok := r.(killed); ok {
					return
				}
				// forward engine panics and uncaught target panics to the main goroutine
				if _, isRT := r.(runtime.Error); isRT && os.Getenv("VERIF_DEBUG") != "" {
					fmt.Fprintf(os.Stderr, "ENGINE-BUG in g%d: %v\n%s\n", g.id, r, debug.Stack())
				}
				if rt.forward == nil {
					rt.forward = r
				}
				rt.abortToMain(g)
				return
			}
		}()
		g.pending = nil
		ex.callValue(nil, fn, args)
		g.done = true
		rt.reschedule(g)
	}()
}

// abortToMain wakes the main goroutine so that it re-raises rt.forward.
func (rt *runtimeState) abortToMain(from *Goroutine) {
	if schedTrace {
		rt.log = append(rt.log, fmt.Sprintf("abortToMain from g%d forward=%v", from.id, rt.forward))
	}
	from.done = true
	g0 := rt.gs[0]
	rt.aborting = true
	rt.cur = g0
	atomic.AddInt32(&rt.running, -1)
	g0.wake <- struct{}{}
}

func (rt *runtimeState) parkMain() {
	// only called on g0 when it waits for another goroutine
}

// wait parks g until it is woken.
func (rt *runtimeState) wait(g *Goroutine) {
	if schedTrace && len(g.wake) > 0 {
		rt.log = append(rt.log, fmt.Sprintf("STALE TOKEN for g%d cur=g%d", g.id, rt.cur.id))
	}
	<-g.wake
	if n := atomic.AddInt32(&rt.running, 1); n != 1 && !rt.aborting {
		panic(fmt.Sprintf("engine: %d goroutines running after waking g%d", n, g.id))
	}
	if rt.aborting {
		if g.id == 0 {
			if rt.forward != nil {
				f := rt.forward
				rt.forward = nil
				panic(f)
			}
			panic(pathEnd{"aborted"})
		}
		panic(killed{})
	}
}

// ---- dependence and sleep sets

func (rt *runtimeState) footprint(p *pendingOp) (objs []interface{}, glob bool) {
	switch p.kind {
	case opStart, opResume:
		return nil, false
	case opGhost, opAwait:
		if os.Getenv("VERIF_GHOST_GLOBAL") != "" {
			return nil, true
		}
		return []interface{}{ghostObj}, false
	case opSend, opRecv, opClose:
		return []interface{}{p.ch}, false
	case opSelect:
		for _, c := range p.cases {
			if c.ch != nil {
				objs = append(objs, c.ch)
			}
		}
		return objs, false
	case opLock, opRLock, opUnlock, opWGWait, opCondWake, opAtomic:
		if p.objs != nil {
			return p.objs, false
		}
		return []interface{}{p.obj}, false
	}
	return nil, true
}

func dependent(aObjs []interface{}, aGlob bool, bObjs []interface{}, bGlob bool) bool {
	if aGlob || bGlob {
		return true
	}
	for _, a := range aObjs {
		for _, b := range bObjs {
			if a == b {
				return true
			}
		}
	}
	return false
}

// ---- enabledness

func (rt *runtimeState) enabled(g *Goroutine) bool {
	p := g.pending
	if g.done || p == nil {
		return false
	}
	if p.parked {
		return p.completed
	}
	switch p.kind {
	case opStart, opResume, opClose, opUnlock, opAtomic, opGlobal, opGhost, opSend, opRecv, opSelect:
		return true // arriving at a channel operation is always possible; it may then park
	case opLock, opRLock, opWGWait, opCondWake, opAwait, opSleepUntil:
		return p.cond()
	case opQuiesce:
		return false // handled specially
	}
	return false
}

// reschedule is called by the running goroutine `from` with from.pending set (or from.done).
// It returns when `from` has been chosen to perform its pending operation.
func (rt *runtimeState) reschedule(from *Goroutine) {
	ex := rt.ex
	if rt.cur != from && !rt.aborting {
		panic(fmt.Sprintf("engine: goroutine g%d reschedules while g%d holds the baton", from.id, rt.cur.id))
	}
	if from.atomic > 0 && !from.done {
		return
	}
	for {
		// fast path: single goroutine, no environment events
		if len(rt.gs) == 1 && len(rt.timers) == 0 {
			if from.pending != nil && (rt.enabled(from) || from.pending.kind == opQuiesce) {
				return
			}
		}
		var alts []int
		for _, g := range rt.gs {
			if rt.enabled(g) {
				alts = append(alts, g.id)
			}
		}
		evs := rt.enabledEvents()
		if ex.cfg.PromptTime && len(alts) > 0 {
			evs = nil // time stands still while anybody can run
		}
		for _, e := range evs {
			alts = append(alts, e)
		}
		if len(alts) == 0 {
			g0 := rt.gs[0]
			if g0.pending != nil && g0.pending.kind == opQuiesce && !g0.done {
				alts = []int{0}
				rt.sleep = nil
			} else {
				rt.deadlock(from)
			}
		}
		// preemption bounding: switching away from a goroutine that could continue costs one unit
		if ex.cfg.PreemptBound >= 0 {
			fromEnabled := !from.done && rt.enabled(from)
			if fromEnabled && rt.preemptions >= ex.cfg.PreemptBound {
				alts = []int{from.id}
			}
			sort.Ints(alts)
			pick := ex.choose("sched", alts)
			if fromEnabled && pick != from.id {
				rt.preemptions++
			}
			if pick >= eventBase {
				rt.runEvent(pick, from)
				continue
			}
			to := rt.gs[pick]
			if to == from {
				return
			}
			rt.cur = to
			exiting := from.done && from.id != 0 // read before the hand-off: killAll may set done later
			atomic.AddInt32(&rt.running, -1)
			to.wake <- struct{}{}
			if exiting {
				return
			}
			rt.wait(from)
			return
		}
		// sleep-set filtering
		var cands []int
		for _, a := range alts {
			asleep := false
			for _, s := range rt.sleep {
				if s.id == a {
					asleep = true
					break
				}
			}
			if !asleep {
				cands = append(cands, a)
			}
		}
		if len(cands) == 0 {
			ex.report.SleepPruned++
			rt.endPath(from, pathEnd{"sleep-pruned"})
		}
		sort.Ints(cands)
		pick := ex.choose("sched", cands)
		if schedTrace {
			line := fmt.Sprintf("sched: from=g%d(done=%v) alts=%v cands=%v pick=%d sleep=%v pend=%s", from.id, from.done, alts, cands, pick, rt.sleepIDs(), rt.pendDesc())
			rt.log = append(rt.log, line)
		}
		// new sleep set: old sleepers and earlier siblings that are independent of the picked transition
		pObjs, pGlob := rt.transFootprint(pick)
		var ns []sleepEntry
		for _, s := range rt.sleep {
			if !dependent(s.objs, s.glob, pObjs, pGlob) {
				ns = append(ns, s)
			}
		}
		for _, c := range cands {
			if c == pick {
				break
			}
			o, gl := rt.transFootprint(c)
			if !dependent(o, gl, pObjs, pGlob) {
				ns = append(ns, sleepEntry{id: c, objs: o, glob: gl})
			}
		}
		rt.sleep = ns
		if pick >= eventBase {
			rt.runEvent(pick, from)
			continue
		}
		to := rt.gs[pick]
		if to == from {
			return
		}
		rt.cur = to
		exiting := from.done && from.id != 0 // read before the hand-off: killAll may set done later
		atomic.AddInt32(&rt.running, -1)
		to.wake <- struct{}{}
		if exiting {
			return // this OS goroutine exits
		}
		rt.wait(from)
		// woken: we were chosen
		return
	}
}

func (rt *runtimeState) transFootprint(id int) ([]interface{}, bool) {
	if id >= eventBase {
		return rt.eventFootprint(id)
	}
	g := rt.gs[id]
	if g.pending == nil {
		return nil, true
	}
	if g.pending.completed {
		return nil, false
	}
	return rt.footprint(g.pending)
}

// endPath terminates the current path from any goroutine.
func (rt *runtimeState) endPath(from *Goroutine, reason interface{}) {
	if from.id == 0 {
		panic(reason)
	}
	if rt.forward == nil {
		rt.forward = reason
	}
	panic(reason) // caught by the goroutine's top-level handler, which forwards to main
}

func (rt *runtimeState) deadlock(from *Goroutine) {
	ex := rt.ex
	if rt.fires >= ex.cfg.MaxTimerFires {
		for _, t := range rt.timers {
			if t.armed {
				// not a deadlock: the bound on timer firings per path is exhausted
				ex.report.addAssumption(fmt.Sprintf("executions with more than %d timer firings are not explored", ex.cfg.MaxTimerFires))
				rt.endPath(from, pathEnd{"fire-bound"})
			}
		}
	}
	if rt.aborting && schedTrace {
		fmt.Fprintf(os.Stderr, "DEADLOCK-WHILE-ABORTING %s\n", debug.Stack())
	}
	// describe who is blocked where
	desc := ""
	for _, g := range rt.gs {
		if g.done {
			continue
		}
		k := "running"
		if g.pending != nil {
			k = fmt.Sprintf("blocked(op=%d)", g.pending.kind)
		}
		desc += fmt.Sprintf("g%d[%s]:%s ", g.id, g.fn, k)
	}
	if schedTrace {
		for _, l := range rt.log {
			fmt.Fprintln(os.Stderr, l)
		}
		fmt.Fprintln(os.Stderr, "DEADLOCK", desc, "from=", from.id, "aborting=", rt.aborting, rt.pendDesc())
	}
	ex.note("deadlock", desc)
	ex.reportEvent("deadlock", desc)
	rt.endPath(from, pathEnd{"deadlock"})
}

// reportEvent records a violation-kind event on the current (feasible) path.
func (ex *Exec) reportEvent(label, msg string) {
	r, m := smt.Sat, ex.model
	if m == nil {
		r, m = ex.checkSat(nil)
	}
	if r == smt.Sat {
		ex.addViolation(Violation{Label: label, Kind: label, Msg: msg, Model: ex.modelEntries(m), Choices: ex.choicesSoFar(), VChoices: append([]int(nil), ex.vchoices...), Extra: ex.notes()})
	} else if r == smt.Unknown {
		ex.inconclusive(label + " on a path of unknown feasibility")
	}
}

// visible announces op as g's next visible operation and returns once g is scheduled to do it.
func (rt *runtimeState) visible(g *Goroutine, p *pendingOp) {
	if g.atomic > 0 {
		// inside vAtomic: no scheduling; the operation must be immediately possible
		g.pending = p
		if !rt.enabled(g) && p.kind != opQuiesce {
			rt.ex.goPanicEngine("blocking operation inside vAtomic")
		}
		return
	}
	g.pending = p
	rt.reschedule(g)
	if rt.raceOn() {
		if p.kind == opQuiesce {
			rt.hbJoinAll(g)
		} else if p.kind != opStart && p.kind != opResume {
			objs, glob := rt.footprint(p)
			rt.hbSync(g, objs, glob)
		}
	}
}

func (ex *Exec) goPanicEngine(msg string) { unsupp("%s", msg) }

func (fr *frame) gor() *Goroutine {
	if fr != nil && fr.g != nil {
		return fr.g
	}
	return fr.ex.rt.cur
}

// ---- channels (Go semantics: an arriving party completes a rendezvous with the first parked
// partner in FIFO order, else uses the buffer, else parks; close wakes every parked party)

func (rt *runtimeState) newChan(n int, elemT types.Type) *Chan {
	rt.nextChan++
	return &Chan{id: rt.nextChan, cap: n, elemT: elemT}
}

func (rt *runtimeState) chanLen(ch *Chan) Value {
	if ch == nil {
		return rt.ex.ctx.ConstS(64, 0)
	}
	return rt.ex.ctx.ConstS(64, int64(len(ch.buf)))
}

func firstLive(q *[]*waiter) *waiter {
	for len(*q) > 0 {
		w := (*q)[0]
		if w.p.completed || w.g.done {
			*q = (*q)[1:]
			continue
		}
		return w
	}
	return nil
}

func (rt *runtimeState) sendReady(ch *Chan) bool {
	if ch == nil {
		return false
	}
	return ch.closed || firstLive(&ch.recvq) != nil || len(ch.buf) < ch.cap
}

func (rt *runtimeState) recvReady(ch *Chan) bool {
	if ch == nil {
		return false
	}
	return len(ch.buf) > 0 || ch.closed || firstLive(&ch.sendq) != nil
}

// doSend performs a send that sendReady said is possible.
func (rt *runtimeState) doSend(ch *Chan, v Value) {
	if ch.closed {
		rt.ex.goPanic("send on closed channel")
	}
	if w := firstLive(&ch.recvq); w != nil {
		ch.recvq = ch.recvq[1:]
		w.p.completed, w.p.result, w.p.recvOk, w.p.caseIdx = true, v, true, w.caseIdx
		return
	}
	ch.buf = append(ch.buf, v)
}

// doRecv performs a receive that recvReady said is possible.
func (rt *runtimeState) doRecv(ch *Chan) (Value, bool) {
	if len(ch.buf) > 0 {
		v := ch.buf[0]
		ch.buf = append([]Value(nil), ch.buf[1:]...)
		if w := firstLive(&ch.sendq); w != nil {
			ch.sendq = ch.sendq[1:]
			ch.buf = append(ch.buf, w.val)
			w.p.completed, w.p.caseIdx = true, w.caseIdx
		}
		return v, true
	}
	if ch.closed {
		return rt.ex.zero(ch.elemT), false
	}
	w := firstLive(&ch.sendq)
	ch.sendq = ch.sendq[1:]
	w.p.completed, w.p.caseIdx = true, w.caseIdx
	return w.val, true
}

// park blocks g on its (already queued) operation until a partner completes it.
func (rt *runtimeState) park(g *Goroutine, p *pendingOp) {
	if g.atomic > 0 {
		unsupp("blocking channel operation inside vAtomic")
	}
	p.parked = true
	g.pending = p
	rt.reschedule(g)
	g.pending = nil
	if !p.completed {
		panic("engine: parked goroutine resumed without completion")
	}
	if rt.raceOn() {
		objs, glob := rt.footprint(p)
		rt.hbSync(g, objs, glob)
	}
}

func (rt *runtimeState) chanSend(fr *frame, ch *Chan, v Value) {
	g := fr.gor()
	p := &pendingOp{kind: opSend, ch: ch}
	rt.visible(g, p)
	g.pending = nil
	if rt.sendReady(ch) {
		rt.doSend(ch, copyVal(v))
		return
	}
	if ch != nil {
		ch.sendq = append(ch.sendq, &waiter{g: g, p: p, caseIdx: -1, val: copyVal(v)})
	}
	rt.park(g, p)
	if p.closedPanic {
		rt.ex.goPanic("send on closed channel")
	}
}

func (rt *runtimeState) chanRecv(fr *frame, ch *Chan, commaOk bool) Value {
	g := fr.gor()
	p := &pendingOp{kind: opRecv, ch: ch}
	rt.visible(g, p)
	g.pending = nil
	var v Value
	var ok bool
	if rt.recvReady(ch) {
		v, ok = rt.doRecv(ch)
	} else {
		if ch != nil {
			ch.recvq = append(ch.recvq, &waiter{g: g, p: p, caseIdx: -1})
		}
		rt.park(g, p)
		v, ok = p.result, p.recvOk
		if v == nil {
			v = rt.ex.zero(ch.elemT)
		}
	}
	if commaOk {
		return Tuple{v, rt.ex.ctx.Bool(ok)}
	}
	return v
}

func (rt *runtimeState) chanClose(fr *frame, ch *Chan) {
	g := fr.gor()
	rt.visible(g, &pendingOp{kind: opClose, ch: ch})
	g.pending = nil
	if ch == nil {
		rt.ex.goPanic("close of nil channel")
	}
	if ch.closed {
		rt.ex.goPanic("close of closed channel")
	}
	rt.closeChan(ch)
}

// closeChan marks ch closed and wakes every parked party (also used by context cancellation).
func (rt *runtimeState) closeChan(ch *Chan) {
	ch.closed = true
	for _, w := range ch.recvq {
		if !w.p.completed {
			w.p.completed, w.p.result, w.p.recvOk, w.p.caseIdx = true, nil, false, w.caseIdx
		}
	}
	ch.recvq = nil
	for _, w := range ch.sendq {
		if !w.p.completed {
			w.p.completed, w.p.closedPanic, w.p.caseIdx = true, true, w.caseIdx
		}
	}
	ch.sendq = nil
}

func (rt *runtimeState) doSelect(fr *frame, instr *ssa.Select) Value {
	ex := rt.ex
	g := fr.gor()
	p := &pendingOp{kind: opSelect, blocking: instr.Blocking}
	for _, st := range instr.States {
		sc := selCase{ch: fr.get(st.Chan).(*Chan), send: st.Dir == types.SendOnly}
		if sc.send {
			sc.val = copyVal(fr.get(st.Send))
		}
		p.cases = append(p.cases, sc)
	}
	rt.visible(g, p)
	g.pending = nil
	chosen := -1
	var recvVal Value
	recvOk := false
	var ready []int
	for i, c := range p.cases {
		if c.send {
			if rt.sendReady(c.ch) {
				ready = append(ready, i)
			}
		} else if rt.recvReady(c.ch) {
			ready = append(ready, i)
		}
	}
	switch {
	case len(ready) > 0:
		chosen = ready[0]
		if len(ready) > 1 {
			chosen = ex.choose("select", ready)
		}
		c := p.cases[chosen]
		if c.send {
			rt.doSend(c.ch, c.val)
		} else {
			recvVal, recvOk = rt.doRecv(c.ch)
		}
	case instr.Blocking:
		for i, c := range p.cases {
			if c.ch == nil {
				continue
			}
			w := &waiter{g: g, p: p, caseIdx: i, val: c.val}
			if c.send {
				c.ch.sendq = append(c.ch.sendq, w)
			} else {
				c.ch.recvq = append(c.ch.recvq, w)
			}
		}
		rt.park(g, p)
		chosen = p.caseIdx
		if p.cases[chosen].send {
			if p.closedPanic {
				ex.goPanic("send on closed channel")
			}
		} else {
			recvVal, recvOk = p.result, p.recvOk
		}
	}
	r := Tuple{ex.ctx.ConstS(64, int64(chosen)), ex.ctx.Bool(recvOk)}
	for i, st := range instr.States {
		if st.Dir == types.RecvOnly {
			var v Value
			if i == chosen && recvOk && recvVal != nil {
				v = recvVal
			} else {
				v = ex.zero(st.Chan.Type().Underlying().(*types.Chan).Elem())
			}
			r = append(r, v)
		}
	}
	return r
}


var schedTrace = os.Getenv("VERIF_TRACE_SCHED") != ""

func (rt *runtimeState) sleepIDs() []int {
	var out []int
	for _, s := range rt.sleep {
		out = append(out, s.id)
	}
	return out
}

func (rt *runtimeState) pendDesc() string {
	out := ""
	for _, g := range rt.gs {
		k := -1
		pk, cm := false, false
		if g.pending != nil {
			k = int(g.pending.kind)
			pk, cm = g.pending.parked, g.pending.completed
		}
		out += fmt.Sprintf("[g%d done=%v op=%d parked=%v compl=%v]", g.id, g.done, k, pk, cm)
	}
	return out
}
