package symex

import (
	"fmt"
	"go/constant"
	"go/token"
	"go/types"
	"math"

	"golang.org/x/tools/go/ssa"

	"verif/engine/smt"
)

func constantBool(c *ssa.Const) bool     { return constant.BoolVal(c.Value) }
func constantString(c *ssa.Const) string {
	if c.Value.Kind() == constant.String {
		return constant.StringVal(c.Value)
	}
	return string(rune(c.Int64()))
}

func (ex *Exec) binop(op token.Token, t types.Type, x, y Value) Value {
	c := ex.ctx
	switch xv := x.(type) {
	case *smt.Term:
		yv := y.(*smt.Term)
		if xv.Sort.K == smt.KBool {
			switch op {
			case token.EQL:
				return c.Eq(xv, yv)
			case token.NEQ:
				return c.Not(c.Eq(xv, yv))
			case token.AND, token.LAND:
				return c.And(xv, yv)
			case token.OR, token.LOR:
				return c.Or(xv, yv)
			}
			unsupp("bool binop %v", op)
		}
		w, signed, ok := isIntType(t)
		if !ok {
			unsupp("int binop on type %v", t)
		}
		_ = w
		switch op {
		case token.ADD:
			return c.Bin(smt.OpAdd, xv, yv)
		case token.SUB:
			return c.Bin(smt.OpSub, xv, yv)
		case token.MUL:
			return c.Bin(smt.OpMul, xv, yv)
		case token.QUO, token.REM:
			if !ex.branch(c.Not(c.Eq(yv, c.Const(w, 0)))) {
				ex.goPanic("runtime error: integer divide by zero")
			}
			var o smt.Op
			switch {
			case op == token.QUO && signed:
				o = smt.OpSDiv
			case op == token.QUO:
				o = smt.OpUDiv
			case signed:
				o = smt.OpSRem
			default:
				o = smt.OpURem
			}
			return c.Bin(o, xv, yv)
		case token.AND:
			return c.Bin(smt.OpBAnd, xv, yv)
		case token.OR:
			return c.Bin(smt.OpBOr, xv, yv)
		case token.XOR:
			return c.Bin(smt.OpBXor, xv, yv)
		case token.AND_NOT:
			return c.Bin(smt.OpBAnd, xv, c.BNot(yv))
		case token.SHL, token.SHR:
			// y may have any integer width; it was already checked non-negative by the SSA? No: do it here.
			cnt := yv
			// widen/truncate count to 64 bits unsigned for the range test
			var cnt64 *smt.Term
			if cnt.Sort.W < 64 {
				cnt64 = c.ZExt(cnt, 64)
			} else {
				cnt64 = cnt
			}
			var o smt.Op
			switch {
			case op == token.SHL:
				o = smt.OpShl
			case signed:
				o = smt.OpAShr
			default:
				o = smt.OpLShr
			}
			var cw *smt.Term
			if cnt64.Sort.W > w {
				cw = c.Extract(cnt64, w-1, 0)
			} else {
				cw = cnt64
			}
			res := c.Bin(o, xv, cw)
			big := c.Cmp(smt.OpULe, c.Const(64, uint64(w)), cnt64)
			var over *smt.Term
			if o == smt.OpAShr {
				over = c.Bin(smt.OpAShr, xv, c.Const(w, uint64(w-1)))
			} else {
				over = c.Const(w, 0)
			}
			return c.Ite(big, over, res)
		case token.EQL:
			return c.Eq(xv, yv)
		case token.NEQ:
			return c.Not(c.Eq(xv, yv))
		case token.LSS:
			if signed {
				return c.Cmp(smt.OpSLt, xv, yv)
			}
			return c.Cmp(smt.OpULt, xv, yv)
		case token.LEQ:
			if signed {
				return c.Cmp(smt.OpSLe, xv, yv)
			}
			return c.Cmp(smt.OpULe, xv, yv)
		case token.GTR:
			if signed {
				return c.Cmp(smt.OpSLt, yv, xv)
			}
			return c.Cmp(smt.OpULt, yv, xv)
		case token.GEQ:
			if signed {
				return c.Cmp(smt.OpSLe, yv, xv)
			}
			return c.Cmp(smt.OpULe, yv, xv)
		}
		unsupp("int binop %v", op)

	case string:
		ys := y.(string)
		switch op {
		case token.ADD:
			return xv + ys
		case token.EQL:
			return c.Bool(xv == ys)
		case token.NEQ:
			return c.Bool(xv != ys)
		case token.LSS:
			return c.Bool(xv < ys)
		case token.LEQ:
			return c.Bool(xv <= ys)
		case token.GTR:
			return c.Bool(xv > ys)
		case token.GEQ:
			return c.Bool(xv >= ys)
		}
		unsupp("string binop %v", op)

	case Float:
		yf := y.(Float)
		if xv.Sym == nil && yf.Sym == nil {
			a, b := xv.V, yf.V
			switch op {
			case token.ADD:
				return Float{V: a + b}
			case token.SUB:
				return Float{V: a - b}
			case token.MUL:
				return Float{V: a * b}
			case token.QUO:
				return Float{V: a / b}
			case token.EQL:
				return c.Bool(a == b)
			case token.NEQ:
				return c.Bool(a != b)
			case token.LSS:
				return c.Bool(a < b)
			case token.LEQ:
				return c.Bool(a <= b)
			case token.GTR:
				return c.Bool(a > b)
			case token.GEQ:
				return c.Bool(a >= b)
			}
			unsupp("float binop %v", op)
		}
		switch op {
		case token.ADD, token.SUB, token.MUL, token.QUO:
			return ex.opaqueFloat("farith")
		default:
			return ex.freshBool("fcmp")
		}
	}
	switch op {
	case token.EQL:
		return ex.equals(t, x, y)
	case token.NEQ:
		return c.Not(ex.equals(t, x, y))
	}
	unsupp("binop %v on %T", op, x)
	return nil
}

func (fr *frame) unop(instr *ssa.UnOp, x Value) Value {
	ex := fr.ex
	c := ex.ctx
	switch instr.Op {
	case token.ARROW:
		return ex.rt.chanRecv(fr, x.(*Chan), instr.CommaOk)
	case token.MUL:
		return fr.load(x)
	case token.SUB:
		switch x := x.(type) {
		case *smt.Term:
			return c.Neg(x)
		case Float:
			if x.Sym == nil {
				return Float{V: -x.V}
			}
			return ex.opaqueFloat("fneg")
		}
	case token.NOT:
		return c.Not(x.(*smt.Term))
	case token.XOR:
		return c.BNot(x.(*smt.Term))
	}
	unsupp("unop %v on %T", instr.Op, x)
	return nil
}

func (ex *Exec) conv(tdst, tsrc types.Type, x Value) Value {
	c := ex.ctx
	ud := tdst.Underlying()
	us := tsrc.Underlying()
	switch xv := x.(type) {
	case *smt.Term:
		if xv.Sort.K == smt.KBool {
			return xv
		}
		sw, ssigned, _ := isIntType(tsrc)
		if db, ok := ud.(*types.Basic); ok {
			if dw, _, ok := intWidth(db); ok {
				switch {
				case dw == sw:
					return xv
				case dw < sw:
					return c.Extract(xv, dw-1, 0)
				case ssigned:
					return c.SExt(xv, dw)
				default:
					return c.ZExt(xv, dw)
				}
			}
			if db.Info()&types.IsFloat != 0 {
				if xv.IsConst() {
					if ssigned {
						return Float{V: float64(xv.SVal())}
					}
					return Float{V: float64(xv.Val)}
				}
				f := ex.opaqueFloat("int2float")
				var i64 *smt.Term
				if ssigned {
					i64 = c.SExt(xv, 64)
				} else {
					i64 = c.ZExt(xv, 64)
				}
				f.Sym.IsInt, f.Sym.Int, f.Sym.IsInf, f.Sym.IsNaN = true, i64, c.False, c.False
				return f
			}
			if db.Info()&types.IsString != 0 {
				v := ex.concretize(xv, "string(rune)")
				return string(rune(v))
			}
			if db.Kind() == types.UnsafePointer {
				unsupp("conversion to unsafe.Pointer")
			}
		}
	case Float:
		if db, ok := ud.(*types.Basic); ok {
			if db.Info()&types.IsFloat != 0 {
				if xv.Sym == nil && db.Kind() == types.Float32 {
					return Float{V: float64(float32(xv.V))}
				}
				return xv
			}
			if dw, dsigned, ok := intWidth(db); ok {
				if xv.Sym == nil {
					if dsigned {
						return c.ConstS(dw, int64(xv.V))
					}
					return c.Const(dw, uint64(xv.V))
				}
				if xv.Sym.IsInt && xv.Sym.Int != nil {
					// out-of-range / Inf / NaN conversions are implementation-defined: arbitrary value
					arb := ex.freshVar("f2i", smt.BV(64), "int64")
					special := c.Or(xv.Sym.IsInf, xv.Sym.IsNaN)
					r := c.Ite(special, arb, xv.Sym.Int)
					if dw < 64 {
						return c.Extract(r, dw-1, 0)
					}
					return r
				}
				return ex.freshVar("f2i", smt.BV(dw), db.Name())
			}
		}
	case string:
		switch d := ud.(type) {
		case *types.Basic:
			if d.Info()&types.IsString != 0 {
				return xv
			}
		case *types.Slice:
			if eb, ok := d.Elem().Underlying().(*types.Basic); ok && eb.Kind() == types.Uint8 {
				s := make([]Value, len(xv))
				for i := range s {
					s[i] = c.Const(8, uint64(xv[i]))
				}
				return Slice{A: s}
			}
		}
	case Slice:
		if db, ok := ud.(*types.Basic); ok && db.Info()&types.IsString != 0 {
			bs := make([]byte, len(xv.A))
			for i, e := range xv.A {
				bs[i] = byte(ex.concretize(e.(*smt.Term), "string(bytes)"))
			}
			return string(bs)
		}
		return xv
	case *Value:
		return xv
	}
	if types.Identical(ud, us) {
		return x
	}
	unsupp("conversion %v -> %v (%T)", tsrc, tdst, x)
	return nil
}

var _ = fmt.Sprintf
var _ = math.Inf
