package symex

import (
	"fmt"
	"go/token"
	"go/types"
	"os"
	"runtime/debug"
	"strings"

	"golang.org/x/tools/go/ssa"

	"verif/engine/smt"
)

type deferred struct {
	fn    Value
	args  []Value
	instr *ssa.Defer
	tail  *deferred
}

type frame struct {
	ex               *Exec
	g                *Goroutine
	caller           *frame
	fn               *ssa.Function
	block, prevBlock *ssa.BasicBlock
	env              map[ssa.Value]Value
	locals           []Value
	defers           *deferred
	result           Value
	panicking        bool
	panic            interface{}
	visits           map[*ssa.BasicBlock]int
	curInstr         ssa.Instruction
}

func (fr *frame) get(key ssa.Value) Value {
	switch key := key.(type) {
	case nil:
		return nil
	case *ssa.Function, *ssa.Builtin:
		return key
	case *ssa.Const:
		return fr.ex.constValue(key)
	case *ssa.Global:
		return fr.ex.globalAddr(key)
	}
	if r, ok := fr.env[key]; ok {
		return r
	}
	panic(fmt.Sprintf("get: no value for %T: %v in %s", key, key.Name(), fr.fn))
}

func (ex *Exec) globalAddr(g *ssa.Global) *Value {
	if r, ok := ex.globals[g]; ok {
		return r
	}
	cell := new(Value)
	*cell = ex.zero(deref(g.Type()))
	if g.Pkg != nil && g.Pkg.Pkg.Path() == "context" {
		switch g.Name() {
		case "Canceled", "DeadlineExceeded":
			*cell = ex.ctxErr(g.Name())
		}
	}
	ex.globals[g] = cell
	return cell
}

func (ex *Exec) constValue(c *ssa.Const) Value {
	if c.Value == nil {
		return ex.zero(c.Type())
	}
	t := c.Type().Underlying()
	if b, ok := t.(*types.Basic); ok {
		if w, signed, ok := intWidth(b); ok {
			if signed {
				return ex.ctx.ConstS(w, c.Int64())
			}
			return ex.ctx.Const(w, c.Uint64())
		}
		switch {
		case b.Info()&types.IsBoolean != 0:
			return ex.ctx.Bool(constantBool(c))
		case b.Info()&types.IsString != 0:
			return constantString(c)
		case b.Info()&types.IsFloat != 0:
			return Float{V: c.Float64()}
		}
	}
	unsupp("constant %v of type %v", c, c.Type())
	return nil
}

// ensureInit runs the package initialisers of pkg and of the juniper / x packages it imports.
func (ex *Exec) ensureInit(pkg *ssa.Package) {
	if pkg == nil || ex.initDone[pkg] {
		return
	}
	ex.initDone[pkg] = true
	if !ex.interpretInit(pkg) {
		return
	}
	for _, imp := range pkg.Pkg.Imports() {
		if ip := ex.prog.Package(imp); ip != nil {
			ex.ensureInit(ip)
		}
	}
	if init := pkg.Func("init"); init != nil && init.Blocks != nil {
		ex.callSSA(nil, init, nil, nil)
	}
}

func (ex *Exec) interpretInit(pkg *ssa.Package) bool {
	p := pkg.Pkg.Path()
	return strings.HasPrefix(p, "github.com/bradenaw/juniper") || strings.HasPrefix(p, "golang.org/x/")
}

func (fr *frame) runDefer(d *deferred) {
	var ok bool
	defer func() {
		if !ok {
			r := recover()
			if isEnginePanic(r) {
				panic(r)
			}
			fr.panicking = true
			fr.panic = r
		}
	}()
	fr.ex.callValue(fr, d.fn, d.args)
	ok = true
}

// isEnginePanic: panics that must unwind the whole path without running target defers.
func isEnginePanic(r interface{}) bool {
	switch r.(type) {
	case targetPanic:
		return false
	}
	return true
}

func (fr *frame) runDefers() {
	for d := fr.defers; d != nil; d = d.tail {
		fr.runDefer(d)
	}
	fr.defers = nil
	if fr.panicking {
		panic(fr.panic)
	}
}

func (ex *Exec) lookupMethod(typ types.Type, meth *types.Func) *ssa.Function {
	return ex.prog.LookupMethod(typ, meth.Pkg(), meth.Name())
}

func (fr *frame) prepareCall(call *ssa.CallCommon) (fn Value, args []Value) {
	v := fr.get(call.Value)
	if call.Method == nil {
		fn = v
	} else {
		recv := v.(Iface)
		if recv.T == nil {
			fr.ex.goPanic("runtime error: invalid memory address or nil pointer dereference (method call on nil interface)")
		}
		f := fr.ex.lookupMethod(recv.T, call.Method)
		if f == nil {
			panic(fmt.Sprintf("method set for dynamic type %v does not contain %s", recv.T, call.Method))
		}
		fn = f
		args = append(args, recv.V)
	}
	for _, arg := range call.Args {
		args = append(args, fr.get(arg))
	}
	return
}

func (ex *Exec) call(caller *frame, fn *ssa.Function, args []Value) Value {
	return ex.callSSA(caller, fn, args, nil)
}

func (ex *Exec) callValue(caller *frame, fn Value, args []Value) Value {
	switch fn := fn.(type) {
	case *ssa.Function:
		if fn == nil {
			ex.goPanic("runtime error: invalid memory address or nil pointer dereference (call of nil func)")
		}
		return ex.callSSA(caller, fn, args, nil)
	case *Closure:
		return ex.callSSA(caller, fn.Fn, args, fn.Env)
	case *ssa.Builtin:
		return ex.callBuiltin(caller, fn, args)
	case *nativeFunc:
		return fn.f(caller, args)
	}
	panic(fmt.Sprintf("cannot call %T", fn))
}

// nativeFunc is a function value implemented by the engine (e.g. context.CancelFunc).
type nativeFunc struct {
	name string
	f    func(caller *frame, args []Value) Value
}

func fnKey(fn *ssa.Function) string {
	if o := fn.Origin(); o != nil {
		return o.String()
	}
	return fn.String()
}

func (ex *Exec) callSSA(caller *frame, fn *ssa.Function, args []Value, env []Value) Value {
	fr := &frame{ex: ex, caller: caller, fn: fn}
	if caller != nil {
		fr.g = caller.g
	} else {
		fr.g = ex.rt.cur
	}
	if fn.Parent() == nil {
		if fn.Name() == "init" && fn.Pkg != nil && fn.Signature.Recv() == nil && fn.Synthetic != "" && !ex.interpretInit(fn.Pkg) {
			return nil // package initialisers outside the module under test are not run
		}
		key := fnKey(fn)
		if in := ex.intrinsic(fn); in != nil {
			return in(fr, args)
		}
		if ext := externals[key]; ext != nil {
			ex.report.Stubs[key]++
			return ext(fr, args)
		}
		if fn.Blocks == nil {
			unsupp("no code for function %s", key)
		}
	}
	if fn.TypeParams().Len() > 0 && len(fn.TypeArgs()) == 0 {
		unsupp("uninstantiated generic function %s", fn)
	}
	if _, ok := ex.report.Functions[fn.String()]; !ok {
		p := ex.prog.Fset.Position(fn.Pos())
		ex.report.Functions[fn.String()] = fmt.Sprintf("%s:%d", shortFile(p.Filename), p.Line)
	}
	if ex.cfg.Trace {
		fmt.Fprintf(os.Stderr, "-> %s\n", fn)
	}
	depth := 0
	for c := caller; c != nil; c = c.caller {
		depth++
	}
	if depth > 200 {
		ex.boundExceeded("call depth > 200 in " + fn.String())
	}

	fr.env = make(map[ssa.Value]Value, 16)
	fr.block = fn.Blocks[0]
	fr.locals = make([]Value, len(fn.Locals))
	for i, l := range fn.Locals {
		fr.locals[i] = ex.zero(deref(l.Type()))
		fr.env[l] = &fr.locals[i]
		if ex.fp != nil {
			ex.fp.markFresh(&fr.locals[i])
		}
	}
	for i, p := range fn.Params {
		fr.env[p] = args[i]
	}
	for i, fv := range fn.FreeVars {
		fr.env[fv] = env[i]
	}
	for fr.block != nil {
		fr.runFrame()
	}
	return fr.result
}

func (ex *Exec) boundExceeded(msg string) {
	ex.inconclusive("bound exceeded: " + msg)
	panic(pathEnd{"unwind"})
}

func (fr *frame) runFrame() {
	defer func() {
		if fr.block == nil {
			return // normal return
		}
		r := recover()
		if isEnginePanic(r) {
			switch r.(type) {
			case pathEnd, killed, unsupported, engineBug:
				panic(r)
			}
			if os.Getenv("VERIF_DEBUG") != "" {
				fmt.Fprintf(os.Stderr, "ENGINE-BUG %v\n%s\n", r, debug.Stack())
			}
			panic(engineBug{fmt.Sprintf("%v [in %s at %s: %v]", r, fr.fn, fr.pos(), fr.curInstr)})
		}
		fr.panicking = true
		fr.panic = r
		fr.runDefers()
		fr.block = fr.fn.Recover
		if fr.block == nil {
			// recovered, no named results: return zero values
			fr.result = fr.ex.zero(fr.fn.Signature.Results())
			if fr.fn.Signature.Results().Len() == 0 {
				fr.result = nil
			}
		}
	}()
	ex := fr.ex
	for {
		if fr.visits == nil {
			fr.visits = map[*ssa.BasicBlock]int{}
		}
		fr.visits[fr.block]++
		if fr.visits[fr.block] > ex.cfg.Unwind {
			ex.boundExceeded(fmt.Sprintf("block %s of %s visited more than %d times", fr.block, fr.fn, ex.cfg.Unwind))
		}
		nonPhis := fr.executePhis()
		for _, instr := range nonPhis {
			ex.steps++
			if ex.steps > ex.cfg.MaxSteps {
				ex.boundExceeded("step budget per path")
			}
			fr.curInstr = instr
			if ex.cfg.Trace {
				if v, ok := instr.(ssa.Value); ok {
					fmt.Fprintln(os.Stderr, "\t", v.Name(), "=", instr)
				} else {
					fmt.Fprintln(os.Stderr, "\t", instr)
				}
			}
			switch fr.visitInstr(instr) {
			case kReturn:
				return
			case kJump:
			}
		}
	}
}

// engineBug wraps an unexpected Go panic of the executor with the SSA location it happened at.
type engineBug struct{ msg string }

func (e engineBug) String() string { return e.msg }

type continuation int

const (
	kNext continuation = iota
	kReturn
	kJump
)

func (fr *frame) executePhis() []ssa.Instruction {
	firstNonPhi := -1
	for i, instr := range fr.block.Instrs {
		if _, ok := instr.(*ssa.Phi); !ok {
			firstNonPhi = i
			break
		}
	}
	nonPhis := fr.block.Instrs[firstNonPhi:]
	if firstNonPhi > 0 {
		phis := fr.block.Instrs[:firstNonPhi]
		predIndex := -1
		for i, p := range fr.block.Preds {
			if p == fr.prevBlock {
				predIndex = i
				break
			}
		}
		tmp := make([]Value, len(phis))
		for i, phi := range phis {
			tmp[i] = fr.get(phi.(*ssa.Phi).Edges[predIndex])
		}
		for i, phi := range phis {
			fr.env[phi.(*ssa.Phi)] = tmp[i]
		}
	}
	return nonPhis
}

func (fr *frame) pos() string { return posStr(fr.ex.prog, fr.fn, fr.curInstr) }

func (fr *frame) visitInstr(instr ssa.Instruction) continuation {
	ex := fr.ex
	switch instr := instr.(type) {
	case *ssa.DebugRef:

	case *ssa.UnOp:
		fr.env[instr] = fr.unop(instr, fr.get(instr.X))

	case *ssa.BinOp:
		fr.env[instr] = ex.binop(instr.Op, instr.X.Type(), fr.get(instr.X), fr.get(instr.Y))

	case *ssa.Call:
		fn, args := fr.prepareCall(&instr.Call)
		fr.env[instr] = ex.callValue(fr, fn, args)

	case *ssa.ChangeInterface:
		fr.env[instr] = fr.get(instr.X)

	case *ssa.ChangeType:
		fr.env[instr] = fr.get(instr.X)

	case *ssa.Convert:
		fr.env[instr] = ex.conv(instr.Type(), instr.X.Type(), fr.get(instr.X))

	case *ssa.SliceToArrayPointer:
		unsupp("SliceToArrayPointer")

	case *ssa.MakeInterface:
		fr.env[instr] = Iface{T: instr.X.Type(), V: fr.get(instr.X)}

	case *ssa.Extract:
		fr.env[instr] = fr.get(instr.Tuple).(Tuple)[instr.Index]

	case *ssa.Slice:
		fr.env[instr] = fr.slice(instr)

	case *ssa.Return:
		switch len(instr.Results) {
		case 0:
		case 1:
			fr.result = fr.get(instr.Results[0])
		default:
			var res []Value
			for _, r := range instr.Results {
				res = append(res, fr.get(r))
			}
			fr.result = Tuple(res)
		}
		fr.block = nil
		return kReturn

	case *ssa.RunDefers:
		fr.runDefers()

	case *ssa.Panic:
		v := fr.get(instr.X)
		panic(targetPanic{v: v})

	case *ssa.Send:
		ex.rt.chanSend(fr, fr.get(instr.Chan).(*Chan), fr.get(instr.X))

	case *ssa.Store:
		fr.store(fr.get(instr.Addr), fr.get(instr.Val))

	case *ssa.If:
		succ := 1
		if ex.branch(fr.get(instr.Cond).(*smt.Term)) {
			succ = 0
		}
		fr.prevBlock, fr.block = fr.block, fr.block.Succs[succ]
		return kJump

	case *ssa.Jump:
		fr.prevBlock, fr.block = fr.block, fr.block.Succs[0]
		return kJump

	case *ssa.Defer:
		fn, args := fr.prepareCall(&instr.Call)
		if instr.DeferStack != nil {
			unsupp("defer with explicit DeferStack (range-over-func)")
		}
		fr.defers = &deferred{fn: fn, args: args, instr: instr, tail: fr.defers}

	case *ssa.Go:
		fn, args := fr.prepareCall(&instr.Call)
		ex.rt.spawn(fr, fn, args)

	case *ssa.MakeChan:
		n := ex.concretize(fr.get(instr.Size).(*smt.Term), "chan size")
		fr.env[instr] = ex.rt.newChan(int(n), instr.Type().Underlying().(*types.Chan).Elem())

	case *ssa.Alloc:
		var addr *Value
		if instr.Heap {
			addr = new(Value)
			fr.env[instr] = addr
		} else {
			addr = fr.env[instr].(*Value)
		}
		*addr = ex.zero(deref(instr.Type()))
		if ex.fp != nil {
			ex.fp.markFresh(addr)
		}

	case *ssa.MakeSlice:
		n := ex.concretize(fr.get(instr.Len).(*smt.Term), "make len")
		cp := ex.concretize(fr.get(instr.Cap).(*smt.Term), "make cap")
		if n < 0 {
			ex.goPanic("runtime error: makeslice: len out of range")
		}
		if cp < n {
			ex.goPanic("runtime error: makeslice: cap out of range")
		}
		if cp > 1<<16 {
			ex.boundExceeded(fmt.Sprintf("make of %d elements", cp))
		}
		tElt := instr.Type().Underlying().(*types.Slice).Elem()
		s := make([]Value, cp)
		for i := range s {
			s[i] = ex.zero(tElt)
		}
		fr.env[instr] = Slice{A: s[:n]}

	case *ssa.MakeMap:
		mt := instr.Type().Underlying().(*types.Map)
		fr.env[instr] = &MapV{KeyT: mt.Key(), ElemT: mt.Elem()}

	case *ssa.Range:
		fr.env[instr] = ex.rangeIter(fr.get(instr.X), instr.X.Type())

	case *ssa.Next:
		fr.env[instr] = fr.get(instr.Iter).(iter).next()

	case *ssa.FieldAddr:
		x := fr.get(instr.X)
		switch x := x.(type) {
		case *Value:
			if x == nil {
				ex.goPanic("runtime error: invalid memory address or nil pointer dereference")
			}
			fr.env[instr] = &(*x).(Struct)[instr.Field]
		case ElemPtr:
			np := append(append([]int(nil), x.Path...), instr.Field)
			fr.env[instr] = ElemPtr{S: x.S, Idx: x.Idx, Path: np}
		default:
			panic(fmt.Sprintf("FieldAddr on %T", x))
		}

	case *ssa.Field:
		fr.env[instr] = copyVal(fr.get(instr.X).(Struct)[instr.Field])

	case *ssa.IndexAddr:
		fr.env[instr] = fr.indexAddr(instr)

	case *ssa.Index:
		x := fr.get(instr.X)
		idx := fr.get(instr.Index).(*smt.Term)
		switch x := x.(type) {
		case Array:
			i := fr.checkIndex(idx, len(x), instr.Index.Type())
			fr.env[instr] = copyVal(fr.loadIndexed(x, i))
		case string:
			i := ex.concretize(fr.checkIndex(idx, len(x), instr.Index.Type()), "string index")
			fr.env[instr] = ex.ctx.Const(8, uint64(x[i]))
		default:
			panic(fmt.Sprintf("Index on %T", x))
		}

	case *ssa.Lookup:
		fr.env[instr] = fr.lookup(instr)

	case *ssa.MapUpdate:
		m := fr.get(instr.Map).(*MapV)
		if m == nil {
			ex.goPanic("assignment to entry in nil map")
		}
		ex.mapInsert(m, fr.get(instr.Key), fr.get(instr.Value))

	case *ssa.TypeAssert:
		fr.env[instr] = fr.typeAssert(instr, fr.get(instr.X).(Iface))

	case *ssa.MakeClosure:
		var bindings []Value
		for _, b := range instr.Bindings {
			bindings = append(bindings, fr.get(b))
		}
		fr.env[instr] = &Closure{instr.Fn.(*ssa.Function), bindings}

	case *ssa.Select:
		fr.env[instr] = ex.rt.doSelect(fr, instr)

	default:
		unsupp("instruction %T", instr)
	}
	return kNext
}

// checkIndex forks a panic path if idx can be outside [0, n) and returns idx (64-bit).
func (fr *frame) checkIndex(idx *smt.Term, n int, idxT types.Type) *smt.Term {
	ex := fr.ex
	c := ex.ctx
	i64 := ex.toInt64(idx, idxT)
	inb := c.Cmp(smt.OpULt, i64, c.Const(64, uint64(n)))
	if !ex.branch(inb) {
		ex.goPanic(fmt.Sprintf("runtime error: index out of range [%s] with length %d", i64, n))
	}
	return i64
}

// toInt64 widens an integer term to 64 bits according to its Go type.
func (ex *Exec) toInt64(t *smt.Term, typ types.Type) *smt.Term {
	w, signed, ok := isIntType(typ)
	if !ok {
		panic("toInt64: not an int type: " + typ.String())
	}
	if w == 64 {
		return t
	}
	if signed {
		return ex.ctx.SExt(t, 64)
	}
	return ex.ctx.ZExt(t, 64)
}

func (fr *frame) indexAddr(instr *ssa.IndexAddr) Value {
	ex := fr.ex
	x := fr.get(instr.X)
	idx := fr.get(instr.Index).(*smt.Term)
	var cells []Value
	var elemT types.Type
	switch x := x.(type) {
	case Slice:
		cells = x.A
		elemT = instr.X.Type().Underlying().(*types.Slice).Elem()
	case *Value:
		if x == nil {
			ex.goPanic("runtime error: invalid memory address or nil pointer dereference")
		}
		cells = (*x).(Array)
		elemT = deref(instr.X.Type()).Underlying().(*types.Array).Elem()
	default:
		panic(fmt.Sprintf("IndexAddr on %T", x))
	}
	i := fr.checkIndex(idx, len(cells), instr.Index.Type())
	if i.IsConst() {
		return &cells[i.Val]
	}
	if scalarOnly(elemT) {
		return ElemPtr{S: cells, Idx: i}
	}
	k := ex.concretize(i, "index into non-scalar elements")
	return &cells[k]
}

// loadIndexed reads cells[i] for a (possibly symbolic) in-range index.
func (fr *frame) loadIndexed(cells []Value, i *smt.Term) Value {
	ex := fr.ex
	if i.IsConst() {
		return cells[i.Val]
	}
	c := ex.ctx
	res := cells[len(cells)-1]
	ok := true
	for k := len(cells) - 2; k >= 0 && ok; k-- {
		res, ok = ex.iteValue(c.Eq(i, c.Const(64, uint64(k))), cells[k], res)
	}
	if ok {
		return res
	}
	k := ex.concretize(i, "index (unmergeable elements)")
	return cells[k]
}

func followPath(v Value, path []int) Value {
	for _, f := range path {
		v = v.(Struct)[f]
	}
	return v
}

func (fr *frame) load(addr Value) Value {
	ex := fr.ex
	switch a := addr.(type) {
	case *Value:
		if a == nil {
			ex.goPanic("runtime error: invalid memory address or nil pointer dereference")
		}
		ex.rt.noteAccess(fr, a, false)
		if ex.fp != nil {
			ex.fp.note(a, false)
		}
		return copyVal(*a)
	case ElemPtr:
		c := ex.ctx
		n := len(a.S)
		if ex.fp != nil {
			for k := range a.S {
				ex.fp.note(&a.S[k], false)
			}
		}
		res := followPath(a.S[n-1], a.Path)
		for k := n - 2; k >= 0; k-- {
			var ok bool
			res, ok = ex.iteValue(c.Eq(a.Idx, c.Const(64, uint64(k))), followPath(a.S[k], a.Path), res)
			if !ok {
				unsupp("load through symbolic index of unmergeable value")
			}
		}
		return copyVal(res)
	}
	panic(fmt.Sprintf("load from %T", addr))
}

func (fr *frame) store(addr Value, v Value) {
	ex := fr.ex
	switch a := addr.(type) {
	case *Value:
		if a == nil {
			ex.goPanic("runtime error: invalid memory address or nil pointer dereference")
		}
		ex.rt.noteAccess(fr, a, true)
		if ex.fp != nil {
			ex.fp.note(a, true)
		}
		storeInto(a, v)
	case ElemPtr:
		c := ex.ctx
		for k := range a.S {
			if ex.fp != nil {
				ex.fp.note(&a.S[k], true)
			}
			cell := &a.S[k]
			for _, f := range a.Path {
				cell = &(*cell).(Struct)[f]
			}
			nv, ok := ex.iteValue(c.Eq(a.Idx, c.Const(64, uint64(k))), v, *cell)
			if !ok {
				unsupp("store through symbolic index of unmergeable value")
			}
			storeInto(cell, nv)
		}
	default:
		panic(fmt.Sprintf("store to %T", addr))
	}
}

func (fr *frame) slice(instr *ssa.Slice) Value {
	ex := fr.ex
	x := fr.get(instr.X)
	var cells []Value
	isNil := false
	switch x := x.(type) {
	case Slice:
		cells = x.A
		isNil = x.Nil
	case *Value:
		if x == nil {
			ex.goPanic("runtime error: invalid memory address or nil pointer dereference")
		}
		cells = (*x).(Array)
	case string:
		lo, hi := int64(0), int64(len(x))
		if instr.Low != nil {
			lo = ex.concretize(ex.toInt64(fr.get(instr.Low).(*smt.Term), instr.Low.Type()), "string slice lo")
		}
		if instr.High != nil {
			hi = ex.concretize(ex.toInt64(fr.get(instr.High).(*smt.Term), instr.High.Type()), "string slice hi")
		}
		if lo < 0 || hi > int64(len(x)) || lo > hi {
			ex.goPanic("runtime error: slice bounds out of range")
		}
		return x[lo:hi]
	default:
		panic(fmt.Sprintf("Slice on %T", x))
	}
	c := ex.ctx
	cp := cap(cells)
	lo := c.Const(64, 0)
	hi := c.Const(64, uint64(len(cells)))
	mx := c.Const(64, uint64(cp))
	if instr.Low != nil {
		lo = ex.toInt64(fr.get(instr.Low).(*smt.Term), instr.Low.Type())
	}
	if instr.High != nil {
		hi = ex.toInt64(fr.get(instr.High).(*smt.Term), instr.High.Type())
	}
	if instr.Max != nil {
		mx = ex.toInt64(fr.get(instr.Max).(*smt.Term), instr.Max.Type())
	}
	// 0 <= lo <= hi <= max <= cap
	ok := c.And(c.Cmp(smt.OpULe, mx, c.Const(64, uint64(cp))), c.And(c.Cmp(smt.OpULe, hi, mx), c.Cmp(smt.OpULe, lo, hi)))
	if !ex.branch(ok) {
		ex.goPanic(fmt.Sprintf("runtime error: slice bounds out of range [%s:%s:%s] with capacity %d", lo, hi, mx, cp))
	}
	l := ex.concretize(lo, "slice lo")
	h := ex.concretize(hi, "slice hi")
	m := ex.concretize(mx, "slice max")
	if isNil && l == 0 && h == 0 {
		return Slice{nil, true}
	}
	return Slice{A: cells[l:h:m]}
}

func (fr *frame) lookup(instr *ssa.Lookup) Value {
	ex := fr.ex
	x := fr.get(instr.X)
	switch x := x.(type) {
	case string:
		idx := fr.get(instr.Index).(*smt.Term)
		i := ex.concretize(fr.checkIndex(idx, len(x), instr.Index.Type()), "string index")
		return ex.ctx.Const(8, uint64(x[i]))
	case *MapV:
		mt := instr.X.Type().Underlying().(*types.Map)
		var v Value
		found := false
		if x != nil {
			if e := ex.mapFind(x, fr.get(instr.Index)); e != nil {
				v, found = copyVal(e.V), true
			}
		}
		if !found {
			v = ex.zero(mt.Elem())
		}
		if instr.CommaOk {
			return Tuple{v, ex.ctx.Bool(found)}
		}
		return v
	}
	panic(fmt.Sprintf("Lookup on %T", x))
}

func (fr *frame) typeAssert(instr *ssa.TypeAssert, itf Iface) Value {
	ex := fr.ex
	var v Value
	err := ""
	if idst, ok := instr.AssertedType.Underlying().(*types.Interface); ok {
		v = itf
		if itf.T == nil {
			err = "interface conversion: interface is nil, not " + instr.AssertedType.String()
		} else if meth, _ := types.MissingMethod(itf.T, idst, true); meth != nil {
			err = fmt.Sprintf("interface conversion: %v is not %v: missing method %s", itf.T, idst, meth.Name())
		}
	} else if itf.T != nil && types.Identical(itf.T, instr.AssertedType) {
		v = itf.V
	} else {
		err = fmt.Sprintf("interface conversion: interface is %v, not %v", itf.T, instr.AssertedType)
	}
	if err != "" {
		if !instr.CommaOk {
			ex.goPanic(err)
		}
		return Tuple{ex.zero(instr.AssertedType), ex.ctx.False}
	}
	if instr.CommaOk {
		return Tuple{v, ex.ctx.True}
	}
	return v
}

var _ = token.ADD
