package symex

import (
	"go/types"

	"verif/engine/smt"
)

// Native model of package context. A derived context is the interface value
// (*context.cancelCtx)(cell) or (*context.timerCtx)(cell) whose methods are intercepted by
// name; state lives in the side table. context.Background()/TODO() run from their real SSA.
// Cancellation closes the done channel of the context and of all descendants in one atomic
// step; a deadline is a timer whose firing cancels with DeadlineExceeded.

type ctxObj struct {
	done        *Chan
	err         Value // Iface
	children    []*ctxObj
	hasDeadline bool
	deadline    *smt.Term
	timer       *Timer
	parent      Iface
}

func (ex *Exec) ctxErr(name string) Value {
	key := &ex.ctxErrCells
	if *key == nil {
		*key = map[string]Value{}
	}
	if v, ok := (*key)[name]; ok {
		return v
	}
	v := ex.newError("context: " + name)
	(*key)[name] = v
	return v
}

func (ex *Exec) ctxOf(v Value) *ctxObj {
	a, ok := v.(*Value)
	if !ok || a == nil {
		return nil
	}
	if s, ok := ex.syncObjs[a]; ok {
		if c, ok := s.(*ctxObj); ok {
			return c
		}
	}
	return nil
}

func (ex *Exec) ctxType(name string) types.Type {
	return types.NewPointer(ex.prog.ImportedPackage("context").Type(name).Type())
}

func (rt *runtimeState) cancelCtx(c *ctxObj, err Value) {
	if c.err != nil {
		return
	}
	c.err = err
	if !c.done.closed {
		rt.closeChan(c.done)
	}
	if c.timer != nil {
		c.timer.armed = false
	}
	for _, ch := range c.children {
		rt.cancelCtx(ch, err)
	}
}

func (ex *Exec) newCtx(fr *frame, parent Iface, typeName string) (*ctxObj, Value) {
	if parent.T == nil {
		ex.goPanic("cannot create context from nil parent")
	}
	c := &ctxObj{parent: parent}
	c.done = ex.rt.newChan(0, types.NewStruct(nil, nil))
	cell := new(Value)
	*cell = Struct{}
	ex.syncObjs[cell] = c
	if p := ex.ctxOf(parent.V); p != nil {
		if p.err != nil {
			ex.rt.cancelCtx(c, p.err)
		} else {
			p.children = append(p.children, c)
		}
		if p.hasDeadline {
			c.hasDeadline, c.deadline = true, p.deadline
		}
	} else {
		// foreign parent: supported only if it can never be cancelled (Done() == nil)
		m := ex.findMethod(parent.T, "Done")
		d := ex.callSSA(fr, m, []Value{parent.V}, nil)
		if ch, _ := d.(*Chan); ch != nil {
			unsupp("context derived from a foreign cancellable context %v", parent.T)
		}
	}
	return c, Iface{T: ex.ctxType(typeName), V: cell}
}

func init() {
	reg := func(name string, f extFn) { externals[name] = f }

	globalOp := func(fr *frame) {
		g := fr.gor()
		fr.ex.rt.visible(g, &pendingOp{kind: opGlobal})
		g.pending = nil
	}

	// ctxOp: a visible operation whose footprint is the context objects (and done channels) it touches
	var subtree func(c *ctxObj, out []interface{}) []interface{}
	subtree = func(c *ctxObj, out []interface{}) []interface{} {
		out = append(out, c, c.done)
		for _, ch := range c.children {
			out = subtree(ch, out)
		}
		return out
	}
	ctxOp := func(fr *frame, objs []interface{}) {
		g := fr.gor()
		fr.ex.rt.visible(g, &pendingOp{kind: opAtomic, objs: objs})
		g.pending = nil
	}
	mkCancel := func(c *ctxObj) Value {
		return &nativeFunc{name: "context.CancelFunc", f: func(fr *frame, args []Value) Value {
			ex := fr.ex
			ctxOp(fr, subtree(c, nil))
			ex.rt.cancelCtx(c, ex.ctxErr("Canceled"))
			return nil
		}}
	}

	reg("context.WithCancel", func(fr *frame, args []Value) Value {
		ex := fr.ex
		globalOp(fr)
		c, iv := ex.newCtx(fr, args[0].(Iface), "cancelCtx")
		return Tuple{iv, mkCancel(c)}
	})
	withDeadline := func(fr *frame, parent Iface, dl *smt.Term) Value {
		ex := fr.ex
		cc := ex.ctx
		c, iv := ex.newCtx(fr, parent, "timerCtx")
		if c.hasDeadline {
			// keep the earlier deadline
			c.deadline = cc.Ite(cc.Cmp(smt.OpSLt, dl, c.deadline), dl, c.deadline)
		} else {
			c.hasDeadline, c.deadline = true, dl
		}
		if c.err == nil {
			t := ex.rt.newTimer(cc.ConstS(64, 0))
			t.when = c.deadline
			t.onFire = func() { ex.rt.cancelCtx(c, ex.ctxErr("DeadlineExceeded")) }
			c.timer = t
		}
		return Tuple{iv, mkCancel(c)}
	}
	reg("context.WithDeadline", func(fr *frame, args []Value) Value {
		globalOp(fr)
		return withDeadline(fr, args[0].(Iface), timeNanos(args[1]))
	})
	reg("context.WithTimeout", func(fr *frame, args []Value) Value {
		globalOp(fr)
		ex := fr.ex
		return withDeadline(fr, args[0].(Iface), ex.satAdd(ex.rt.clock(), args[1].(*smt.Term)))
	})

	done := func(fr *frame, args []Value) Value { return fr.ex.ctxOf(args[0]).done }
	errf := func(fr *frame, args []Value) Value {
		ex := fr.ex
		c := ex.ctxOf(args[0])
		// reading Err synchronises with cancel (of this context or an ancestor)
		ctxOp(fr, []interface{}{c})
		if c.err == nil {
			return Iface{}
		}
		return c.err
	}
	deadline := func(fr *frame, args []Value) Value {
		ex := fr.ex
		c := ex.ctxOf(args[0])
		if !c.hasDeadline {
			return Tuple{ex.timeValue(ex.ctx.ConstS(64, 0)), ex.ctx.False}
		}
		return Tuple{ex.timeValue(c.deadline), ex.ctx.True}
	}
	value := func(fr *frame, args []Value) Value { return Iface{} }
	for _, t := range []string{"cancelCtx", "timerCtx"} {
		reg("(*context."+t+").Done", done)
		reg("(*context."+t+").Err", errf)
		reg("(*context."+t+").Deadline", deadline)
		reg("(*context."+t+").Value", value)
	}
	reg("context.Cause", func(fr *frame, args []Value) Value {
		return errf(fr, []Value{args[0].(Iface).V})
	})
}
