package symex

import (
	"fmt"
	"os"
	"path/filepath"
	"sort"
	"strings"

	"golang.org/x/tools/go/packages"
	"golang.org/x/tools/go/ssa"
	"golang.org/x/tools/go/ssa/ssautil"
)

type Loaded struct {
	Prog *ssa.Program
	Pkgs map[string]*ssa.Package // by import path
}

// Load type-checks the given package patterns of the repository at repoDir (its current working
// tree) together with overlay files (virtual path -> contents) and builds SSA with generics
// instantiated.
func Load(repoDir string, patterns []string, overlay map[string][]byte) (*Loaded, error) {
	cfg := &packages.Config{
		Mode:    packages.LoadAllSyntax,
		Dir:     repoDir,
		Overlay: overlay,
		Env:     append(os.Environ(), "GOFLAGS=-mod=mod", "GOPROXY=off", "GOSUMDB=off", "GOTOOLCHAIN=local"),
	}
	pkgs, err := packages.Load(cfg, patterns...)
	if err != nil {
		return nil, err
	}
	var errs []string
	packages.Visit(pkgs, nil, func(p *packages.Package) {
		for _, e := range p.Errors {
			errs = append(errs, e.Error())
		}
	})
	if len(errs) > 0 {
		sort.Strings(errs)
		if len(errs) > 10 {
			errs = errs[:10]
		}
		return nil, fmt.Errorf("harness does not compile against the current tree:\n  %s", strings.Join(errs, "\n  "))
	}
	prog, spkgs := ssautil.AllPackages(pkgs, ssa.InstantiateGenerics)
	prog.Build()
	l := &Loaded{Prog: prog, Pkgs: map[string]*ssa.Package{}}
	for i, p := range pkgs {
		if spkgs[i] != nil {
			l.Pkgs[p.PkgPath] = spkgs[i]
		}
	}
	return l, nil
}

// OverlayFor maps harness files (real paths) into the package directory pkgDir of repoDir.
func OverlayFor(repoDir, pkgDir string, files map[string][]byte) map[string][]byte {
	out := map[string][]byte{}
	for name, data := range files {
		out[filepath.Join(repoDir, pkgDir, "zz_verif_"+name)] = data
	}
	return out
}
