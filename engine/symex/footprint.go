package symex

// Read/write footprints at the granularity of leaf memory cells, for the harness intrinsic
// vConcurrently: two operations whose footprints do not conflict (no cell written by one is read
// or written by the other) are free of data races under the Go memory model whatever their
// interleaving, and both effects persist.

type footprintRec struct {
	r, w  map[*Value]bool
	fresh map[*Value]bool // cells allocated while recording (locals, new objects): private, not shared state
}

func newFootprint() *footprintRec {
	return &footprintRec{r: map[*Value]bool{}, w: map[*Value]bool{}, fresh: map[*Value]bool{}}
}

// markFresh marks a newly allocated cell (and its sub-cells) as private to the recorded call.
func (f *footprintRec) markFresh(a *Value) {
	f.fresh[a] = true
	switch v := (*a).(type) {
	case Struct:
		for i := range v {
			f.markFresh(&v[i])
		}
	case Array:
		for i := range v {
			f.markFresh(&v[i])
		}
	}
}

// note records an access to cell a; aggregates are expanded to their leaf cells.
func (f *footprintRec) note(a *Value, write bool) {
	if f.fresh[a] {
		return
	}
	switch v := (*a).(type) {
	case Struct:
		for i := range v {
			f.note(&v[i], write)
		}
		return
	case Array:
		for i := range v {
			f.note(&v[i], write)
		}
		return
	}
	if write {
		f.w[a] = true
	} else {
		f.r[a] = true
	}
}

func (f *footprintRec) conflicts(g *footprintRec) bool {
	for c := range f.w {
		if g.r[c] || g.w[c] {
			return true
		}
	}
	for c := range g.w {
		if f.r[c] {
			return true
		}
	}
	return false
}
