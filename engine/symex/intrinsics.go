package symex

import (
	"fmt"
	"go/types"
	"strings"

	"golang.org/x/tools/go/ssa"

	"verif/engine/smt"
)

type extFn func(fr *frame, args []Value) Value

// intrinsic returns the engine implementation of a harness intrinsic (functions named v* that
// live in the package under test, injected by overlay).
func (ex *Exec) intrinsic(fn *ssa.Function) extFn {
	name := fn.Name()
	if o := fn.Origin(); o != nil {
		name = o.Name()
	}
	if len(name) < 2 || name[0] != 'v' || name[1] < 'A' || name[1] > 'Z' {
		return nil
	}
	if f, ok := intrinsics[name]; ok {
		return f
	}
	return nil
}

var intrinsics map[string]extFn

func init() {
	intrinsics = map[string]extFn{
		"vNondetInt": func(fr *frame, args []Value) Value {
			return fr.ex.freshVar(args[0].(string), smt.BV(64), "int")
		},
		"vNondetBool": func(fr *frame, args []Value) Value {
			return fr.ex.freshBool(args[0].(string))
		},
		"vNondet": func(fr *frame, args []Value) Value {
			t := fr.fn.Signature.Results().At(0).Type()
			return fr.ex.freshOfType(args[0].(string), t)
		},
		"vAssume": func(fr *frame, args []Value) Value {
			fr.ex.assume(args[0].(*smt.Term))
			return nil
		},
		"vAssert": func(fr *frame, args []Value) Value {
			ex := fr.ex
			if ex.inSync {
				ex.assume(args[0].(*smt.Term))
				return nil
			}
			ex.assertTerm(args[0].(*smt.Term), args[1].(string), fr.caller.pos())
			return nil
		},
		"vCover": func(fr *frame, args []Value) Value {
			if !fr.ex.inSync {
				fr.ex.cover(args[0].(string))
			}
			return nil
		},
		"vAnd": func(fr *frame, args []Value) Value {
			return fr.ex.ctx.And(args[0].(*smt.Term), args[1].(*smt.Term))
		},
		"vOr": func(fr *frame, args []Value) Value {
			return fr.ex.ctx.Or(args[0].(*smt.Term), args[1].(*smt.Term))
		},
		"vImplies": func(fr *frame, args []Value) Value {
			return fr.ex.ctx.Implies(args[0].(*smt.Term), args[1].(*smt.Term))
		},
		"vNot": func(fr *frame, args []Value) Value {
			return fr.ex.ctx.Not(args[0].(*smt.Term))
		},
		"vIte": func(fr *frame, args []Value) Value {
			v, ok := fr.ex.iteValue(args[0].(*smt.Term), args[1], args[2])
			if !ok {
				if fr.ex.branch(args[0].(*smt.Term)) {
					return args[1]
				}
				return args[2]
			}
			return v
		},
		"vTry": func(fr *frame, args []Value) Value {
			return fr.ex.ctx.Bool(fr.ex.try(fr, args[0]))
		},
		"vConcretize": func(fr *frame, args []Value) Value {
			t := args[0].(*smt.Term)
			return fr.ex.ctx.ConstS(t.Sort.W, fr.ex.concretize(t, "vConcretize"))
		},
		"vChoose": func(fr *frame, args []Value) Value {
			n := fr.ex.concretize(args[0].(*smt.Term), "vChoose n")
			alts := make([]int, n)
			for i := range alts {
				alts[i] = i
			}
			k := fr.ex.choose("vchoose", alts)
			fr.ex.vchoices = append(fr.ex.vchoices, k)
			return fr.ex.ctx.ConstS(64, int64(k))
		},
		"vIsConcrete": func(fr *frame, args []Value) Value {
			return fr.ex.ctx.Bool(args[0].(*smt.Term).IsConst())
		},
		"vNote": func(fr *frame, args []Value) Value {
			fr.ex.noteSeq++
			key := fmt.Sprintf("%03d %s", fr.ex.noteSeq, args[0].(string))
			fr.ex.note(key, fr.ex.valueString(args[1]))
			if t, ok := args[1].(*smt.Term); ok && !t.IsConst() {
				fr.ex.noteTerm(key, t)
			}
			return nil
		},
		"vAtomic": func(fr *frame, args []Value) Value {
			ex := fr.ex
			g := fr.gor()
			ex.rt.visible(g, &pendingOp{kind: opGhost})
			g.pending = nil
			g.atomic++
			defer func() { g.atomic-- }()
			ex.callValue(fr, args[0], nil)
			return nil
		},
		"vYield": func(fr *frame, args []Value) Value {
			g := fr.gor()
			fr.ex.rt.visible(g, &pendingOp{kind: opGlobal})
			g.pending = nil
			return nil
		},
		"vAwait": func(fr *frame, args []Value) Value {
			ex := fr.ex
			g := fr.gor()
			cond := args[0]
			p := &pendingOp{kind: opAwait, cond: func() bool {
				saved := g.atomic
				g.atomic++
				defer func() { g.atomic = saved }()
				r := ex.callValue(fr, cond, nil).(*smt.Term)
				if !r.IsConst() {
					unsupp("vAwait condition must be concrete")
				}
				return r.Val != 0
			}}
			ex.rt.visible(g, p)
			g.pending = nil
			return nil
		},
		// vConcurrently(f1, f2) (conflict bool, writes1 int): symbolically f1 then f2 are executed
		// with their cell-level footprints recorded; natively they run in two goroutines.
		"vConcurrently": func(fr *frame, args []Value) Value {
			ex := fr.ex
			f1 := newFootprint()
			ex.fp = f1
			ex.callValue(fr, args[0], nil)
			f2 := newFootprint()
			ex.fp = f2
			ex.callValue(fr, args[1], nil)
			ex.fp = nil
			return Tuple{ex.ctx.Bool(f1.conflicts(f2)), ex.ctx.ConstS(64, int64(len(f1.w)))}
		},
		"vWindow": func(fr *frame, args []Value) Value { return nil },
		"vJitter": func(fr *frame, args []Value) Value { return nil },
		"vNative": func(fr *frame, args []Value) Value { return fr.ex.ctx.False },
		"vLastTimerDuration": func(fr *frame, args []Value) Value {
			if fr.ex.rt.lastArmed == nil {
				return fr.ex.ctx.ConstS(64, -1<<63)
			}
			return fr.ex.rt.lastArmed
		},
		"vQuiesce": func(fr *frame, args []Value) Value {
			g := fr.gor()
			if g.id != 0 {
				unsupp("vQuiesce outside the main goroutine")
			}
			fr.ex.rt.visible(g, &pendingOp{kind: opQuiesce})
			g.pending = nil
			return nil
		},
		"vBlockedCount": func(fr *frame, args []Value) Value {
			// number of goroutines (other than main) that have not finished
			n := 0
			for _, g := range fr.ex.rt.gs[1:] {
				if !g.done {
					n++
				}
			}
			return fr.ex.ctx.ConstS(64, int64(n))
		},
		"vGoroutineID": func(fr *frame, args []Value) Value {
			return fr.ex.ctx.ConstS(64, int64(fr.gor().id))
		},
	}
}

// try runs fn() and reports whether it panicked (Go-level panic of the target program).
func (ex *Exec) try(fr *frame, fn Value) (panicked bool) {
	defer func() {
		if r := recover(); r != nil {
			if tp, ok := r.(targetPanic); ok {
				_ = tp
				panicked = true
				return
			}
			panic(r)
		}
	}()
	ex.callValue(fr, fn, nil)
	return false
}

func typeString(t types.Type) string {
	return strings.TrimPrefix(t.String(), "github.com/bradenaw/juniper/")
}
