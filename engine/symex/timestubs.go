package symex

import (
	"go/types"

	"verif/engine/smt"
)

// Time model: the clock is a symbolic non-decreasing 64-bit count of nanoseconds. A timer
// armed at clock value now with duration d has when = now + d (saturating); the environment
// event "timer fires" is enabled while the timer is armed and, when taken, advances the clock
// to an arbitrary instant >= when (a timer never fires early; how late is unconstrained).
// Timer channels follow the pre-Go-1.23 semantics selected by juniper's go.mod (go 1.18):
// capacity-1 buffered channel, non-blocking send at fire time, Stop/Reset do not drain.

const eventBase = 1000

type Timer struct {
	id    int
	armed bool
	when  *smt.Term
	ch    *Chan // NewTimer
	fn    Value // AfterFunc
	onFire func() // native action (context deadlines)
	cell  *Value
}

func (rt *runtimeState) clock() *smt.Term {
	if rt.now == nil {
		ex := rt.ex
		c := ex.ctx
		rt.now = ex.freshVar("clock", smt.BV(64), "int64")
		// start somewhere in [1, 2^61): leaves headroom for saturating arithmetic
		ex.assume(c.And(c.Cmp(smt.OpSLe, c.ConstS(64, 1), rt.now), c.Cmp(smt.OpSLt, rt.now, c.ConstS(64, 1<<61))))
	}
	return rt.now
}

// advance moves the clock to an arbitrary instant >= max(now, atLeast).
func (rt *runtimeState) advance(atLeast *smt.Term) *smt.Term {
	ex := rt.ex
	c := ex.ctx
	old := rt.clock()
	if ex.cfg.PromptTime {
		// discrete-event reading: reading the clock does not move it; an event moves it exactly
		// to its due time (or leaves it, if that is already past)
		if atLeast != nil {
			rt.now = c.Ite(c.Cmp(smt.OpSLt, old, atLeast), atLeast, old)
			ex.assume(c.Cmp(smt.OpSLt, rt.now, c.ConstS(64, 1<<62)))
		}
		return rt.now
	}
	n := ex.freshVar("clock", smt.BV(64), "int64")
	ex.assume(c.Cmp(smt.OpSLe, old, n))
	// the whole execution happens at clock readings below 2^62 ns (~146 years): keeps the
	// arithmetic of now+d away from int64 saturation, which real clocks never approach
	ex.assume(c.Cmp(smt.OpSLt, n, c.ConstS(64, 1<<62)))
	if atLeast != nil {
		ex.assume(c.Cmp(smt.OpSLe, atLeast, n))
	}
	rt.now = n
	return n
}

// satAdd: a + b saturating at MaxInt64 (b may be any signed value; negative b means "already due").
func (ex *Exec) satAdd(a, b *smt.Term) *smt.Term {
	c := ex.ctx
	sum := c.Bin(smt.OpAdd, a, b)
	// overflow iff a >= 0, b >= 0, sum < 0 (a is a clock value, always >= 1)
	ovf := c.And(c.Cmp(smt.OpSLe, c.ConstS(64, 0), b), c.Cmp(smt.OpSLt, sum, c.ConstS(64, 0)))
	return c.Ite(ovf, c.ConstS(64, int64(^uint64(0)>>1)), sum)
}

func (rt *runtimeState) newTimer(d *smt.Term) *Timer {
	t := &Timer{id: len(rt.timers), armed: true}
	t.when = rt.ex.satAdd(rt.clock(), d)
	rt.lastArmed = d
	rt.timers = append(rt.timers, t)
	if len(rt.timers) > 64 {
		rt.ex.boundExceeded("more than 64 timers on one path")
	}
	return t
}

// maxTimerFires bounds the timer-fire events of one path (periodic timers would otherwise give
// unboundedly long executions); when exhausted, armed timers simply do not fire any more.
var _ = 0

func (rt *runtimeState) enabledEvents() []int {
	var out []int
	if rt.fires >= rt.ex.cfg.MaxTimerFires {
		return nil
	}
	for _, t := range rt.timers {
		if t.armed {
			out = append(out, eventBase+t.id)
		}
	}
	return out
}

func (rt *runtimeState) eventFootprint(id int) ([]interface{}, bool) {
	t := rt.timers[id-eventBase]
	objs := []interface{}{rt, t}
	if t.ch != nil {
		objs = append(objs, t.ch)
	}
	if t.onFire != nil {
		return nil, true
	}
	return objs, false
}

func (rt *runtimeState) runEvent(id int, from *Goroutine) {
	ex := rt.ex
	t := rt.timers[id-eventBase]
	rt.fires++
	if ex.cfg.PromptTime {
		// the earliest armed timer fires first (ties in either order)
		c := ex.ctx
		for _, u := range rt.timers {
			if u != t && u.armed {
				ex.assumeFeasible(c.Cmp(smt.OpSLe, t.when, u.when))
			}
		}
	}
	now := rt.advance(t.when)
	t.armed = false
	switch {
	case t.ch != nil:
		if firstLive(&t.ch.recvq) != nil || len(t.ch.buf) < t.ch.cap {
			rt.doSend(t.ch, ex.timeValue(now))
		}
	case t.fn != nil:
		rt.spawn(nil, t.fn, nil)
	case t.onFire != nil:
		t.onFire()
	}
}

// timeValue builds a time.Time whose ext field carries the clock reading.
func (ex *Exec) timeValue(nanos *smt.Term) Value {
	return Struct{ex.ctx.Const(64, 0), nanos, (*Value)(nil)}
}

func timeNanos(v Value) *smt.Term { return v.(Struct)[1].(*smt.Term) }

func (ex *Exec) timerOf(p Value) *Timer {
	a := p.(*Value)
	if a == nil {
		ex.goPanic("runtime error: invalid memory address or nil pointer dereference")
	}
	if s, ok := ex.syncObjs[a]; ok {
		return s.(*Timer)
	}
	ex.goPanic("time: Stop/Reset called on uninitialized Timer")
	return nil
}

func (ex *Exec) timerCell(t *Timer) Value {
	tt := ex.prog.ImportedPackage("time").Type("Timer").Type()
	cell := new(Value)
	*cell = ex.zero(tt)
	if t.ch != nil {
		(*cell).(Struct)[0] = t.ch
	}
	ex.syncObjs[cell] = t
	t.cell = cell
	return cell
}

func init() {
	reg := func(name string, f extFn) { externals[name] = f }

	clockOp := func(fr *frame, objs ...interface{}) {
		rt := fr.ex.rt
		g := fr.gor()
		rt.visible(g, &pendingOp{kind: opAtomic, objs: append([]interface{}{rt}, objs...)})
		g.pending = nil
	}

	reg("time.Now", func(fr *frame, args []Value) Value {
		clockOp(fr)
		return fr.ex.timeValue(fr.ex.rt.advance(nil))
	})
	reg("time.Since", func(fr *frame, args []Value) Value {
		clockOp(fr)
		ex := fr.ex
		return ex.ctx.Bin(smt.OpSub, ex.rt.advance(nil), timeNanos(args[0]))
	})
	reg("time.Until", func(fr *frame, args []Value) Value {
		clockOp(fr)
		ex := fr.ex
		return ex.ctx.Bin(smt.OpSub, timeNanos(args[0]), ex.rt.advance(nil))
	})
	reg("(time.Time).Sub", func(fr *frame, args []Value) Value {
		return fr.ex.ctx.Bin(smt.OpSub, timeNanos(args[0]), timeNanos(args[1]))
	})
	reg("(time.Time).Add", func(fr *frame, args []Value) Value {
		ex := fr.ex
		return ex.timeValue(ex.satAdd(timeNanos(args[0]), args[1].(*smt.Term)))
	})
	reg("(time.Time).Before", func(fr *frame, args []Value) Value {
		return fr.ex.ctx.Cmp(smt.OpSLt, timeNanos(args[0]), timeNanos(args[1]))
	})
	reg("(time.Time).After", func(fr *frame, args []Value) Value {
		return fr.ex.ctx.Cmp(smt.OpSLt, timeNanos(args[1]), timeNanos(args[0]))
	})
	reg("(time.Time).Equal", func(fr *frame, args []Value) Value {
		return fr.ex.ctx.Eq(timeNanos(args[0]), timeNanos(args[1]))
	})
	reg("(time.Time).IsZero", func(fr *frame, args []Value) Value {
		return fr.ex.ctx.Eq(timeNanos(args[0]), fr.ex.ctx.ConstS(64, 0))
	})
	reg("(time.Time).UnixNano", func(fr *frame, args []Value) Value {
		return timeNanos(args[0])
	})
	reg("time.Sleep", func(fr *frame, args []Value) Value {
		clockOp(fr)
		ex := fr.ex
		if ex.cfg.PromptTime {
			// block until a timer armed for now+d has fired
			t := ex.rt.newTimer(args[0].(*smt.Term))
			fired := false
			t.onFire = func() { fired = true }
			g := fr.gor()
			ex.rt.visible(g, &pendingOp{kind: opSleepUntil, cond: func() bool { return fired }})
			g.pending = nil
			return nil
		}
		ex.rt.advance(ex.satAdd(ex.rt.clock(), args[0].(*smt.Term)))
		return nil
	})
	reg("time.NewTimer", func(fr *frame, args []Value) Value {
		clockOp(fr)
		ex := fr.ex
		t := ex.rt.newTimer(args[0].(*smt.Term))
		tt := ex.prog.ImportedPackage("time").Type("Time").Type()
		t.ch = ex.rt.newChan(1, tt)
		return ex.timerCell(t)
	})
	reg("time.AfterFunc", func(fr *frame, args []Value) Value {
		clockOp(fr)
		ex := fr.ex
		t := ex.rt.newTimer(args[0].(*smt.Term))
		t.fn = args[1]
		return ex.timerCell(t)
	})
	reg("time.After", func(fr *frame, args []Value) Value {
		clockOp(fr)
		ex := fr.ex
		t := ex.rt.newTimer(args[0].(*smt.Term))
		tt := ex.prog.ImportedPackage("time").Type("Time").Type()
		t.ch = ex.rt.newChan(1, tt)
		return t.ch
	})
	reg("(*time.Timer).Stop", func(fr *frame, args []Value) Value {
		ex := fr.ex
		t := ex.timerOf(args[0])
		clockOp(fr, t)
		was := t.armed
		t.armed = false
		return ex.ctx.Bool(was)
	})
	reg("(*time.Timer).Reset", func(fr *frame, args []Value) Value {
		ex := fr.ex
		t := ex.timerOf(args[0])
		clockOp(fr, t)
		was := t.armed
		t.armed = true
		t.when = ex.satAdd(ex.rt.clock(), args[1].(*smt.Term))
		ex.rt.lastArmed = args[1].(*smt.Term)
		return ex.ctx.Bool(was)
	})
}

var _ = types.Typ
