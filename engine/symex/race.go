package symex

import (
	"fmt"
	"strings"
	"unsafe"

	"golang.org/x/tools/go/ssa"
)

// Happens-before data-race check (vector clocks) for the code under test, active once a path has
// more than one goroutine. The scheduler explores only interleavings at visible operations and
// assumes the code between them is data-race-free; this check discharges that assumption on
// every explored execution: an unordered pair of conflicting plain accesses made by library
// code (not by the harness) is reported as a violation ("no-data-race").
//
// Synchronisation edges are over-approximated (every visible operation both acquires from and
// releases to each object in its footprint, so e.g. two sends on one channel are ordered): this
// can hide a race but never invents one.

type vclock []int

func (v vclock) get(i int) int {
	if i < len(v) {
		return v[i]
	}
	return 0
}

func join(a, b vclock) vclock {
	if len(b) > len(a) {
		a = append(a, make([]int, len(b)-len(a))...)
	}
	for i, x := range b {
		if x > a[i] {
			a[i] = x
		}
	}
	return a
}

type accessRec struct {
	g   int
	c   int
	pos string
	lib bool
}

type cellHist struct {
	w     accessRec
	hasW  bool
	reads []accessRec
}

type raceState struct {
	objVC map[interface{}]vclock
	cells map[*Value]*cellHist
	found bool
}

func (rt *runtimeState) raceOn() bool { return len(rt.gs) > 1 && !rt.ex.cfg.NoRaceCheck }

func (rt *runtimeState) vcOf(g *Goroutine) vclock {
	if g.vc == nil {
		g.vc = make(vclock, g.id+1)
		g.vc[g.id] = 1
	}
	if len(g.vc) <= g.id {
		g.vc = append(g.vc, make([]int, g.id+1-len(g.vc))...)
	}
	return g.vc
}

// hbSync: g performs a visible operation touching objs: acquire from and release to each.
func (rt *runtimeState) hbSync(g *Goroutine, objs []interface{}, glob bool) {
	if rt.race == nil {
		rt.race = &raceState{objVC: map[interface{}]vclock{}, cells: map[*Value]*cellHist{}}
	}
	if glob {
		objs = append(objs, globalSyncObj)
	}
	vc := rt.vcOf(g)
	for _, o := range objs {
		vc = join(vc, rt.race.objVC[o])
	}
	g.vc = vc
	for _, o := range objs {
		rt.race.objVC[o] = join(append(vclock(nil), rt.race.objVC[o]...), vc)
	}
	g.vc[g.id]++
}

var globalSyncObj = new(int)

func (rt *runtimeState) hbFork(parent, child *Goroutine) {
	pv := rt.vcOf(parent)
	child.vc = join(make(vclock, child.id+1), pv)
	child.vc[child.id] = 1
	parent.vc[parent.id]++
}

// hbJoinAll: the main goroutine observes a quiescent system.
func (rt *runtimeState) hbJoinAll(g *Goroutine) {
	vc := rt.vcOf(g)
	for _, o := range rt.gs {
		if o != g && o.vc != nil {
			vc = join(vc, o.vc)
		}
	}
	g.vc = vc
}

func isHarnessFn(fn *ssa.Function) bool {
	for f := fn; f != nil; f = f.Parent() {
		if f.Pkg == nil {
			return false
		}
		p := f.Prog.Fset.Position(f.Pos())
		if strings.Contains(p.Filename, "zz_verif_") {
			return true
		}
		if f.Parent() == nil {
			break
		}
	}
	return false
}

// noteAccess is called for every plain load/store of a memory cell.
func (rt *runtimeState) noteAccess(fr *frame, a *Value, write bool) {
	if fr == nil || len(rt.gs) <= 1 || rt.ex.cfg.NoRaceCheck || rt.ex.inSync {
		return
	}
	// cells of the current activation's own locals are private
	if n := len(fr.locals); n > 0 {
		lo := uintptr(unsafe.Pointer(&fr.locals[0]))
		hi := uintptr(unsafe.Pointer(&fr.locals[n-1]))
		if p := uintptr(unsafe.Pointer(a)); p >= lo && p <= hi {
			return
		}
	}
	if rt.race == nil {
		rt.race = &raceState{objVC: map[interface{}]vclock{}, cells: map[*Value]*cellHist{}}
	}
	switch v := (*a).(type) {
	case Struct:
		for i := range v {
			rt.noteLeaf(fr, &v[i], write)
		}
		return
	case Array:
		for i := range v {
			rt.noteLeaf(fr, &v[i], write)
		}
		return
	}
	rt.noteLeaf(fr, a, write)
}

func (rt *runtimeState) noteLeaf(fr *frame, a *Value, write bool) {
	switch v := (*a).(type) {
	case Struct:
		for i := range v {
			rt.noteLeaf(fr, &v[i], write)
		}
		return
	case Array:
		for i := range v {
			rt.noteLeaf(fr, &v[i], write)
		}
		return
	}
	g := fr.gor()
	vc := rt.vcOf(g)
	h := rt.race.cells[a]
	if h == nil {
		h = &cellHist{}
		rt.race.cells[a] = h
	}
	lib := !isHarnessFn(fr.fn)
	me := accessRec{g: g.id, c: vc[g.id], lib: lib}
	conflict := func(o accessRec) bool {
		return o.g != g.id && o.c > vc.get(o.g) && o.lib && lib
	}
	if h.hasW && conflict(h.w) {
		me.pos = fr.pos()
		rt.reportRace(fr, h.w, me, write)
	}
	if write {
		for _, r := range h.reads {
			if conflict(r) {
				me.pos = fr.pos()
				rt.reportRace(fr, r, me, true)
			}
		}
		me.pos = fr.pos()
		h.w, h.hasW, h.reads = me, true, h.reads[:0]
		return
	}
	// keep one read epoch per goroutine
	for i := range h.reads {
		if h.reads[i].g == g.id {
			h.reads[i].c = me.c
			return
		}
	}
	me.pos = fr.pos()
	h.reads = append(h.reads, me)
}

func (rt *runtimeState) reportRace(fr *frame, prev, cur accessRec, curWrite bool) {
	if rt.race.found {
		return
	}
	rt.race.found = true
	ex := rt.ex
	kind := "read"
	if curWrite {
		kind = "write"
	}
	msg := fmt.Sprintf("%s at %s by g%d is not ordered with the access at %s by g%d", kind, cur.pos, cur.g, prev.pos, prev.g)
	ex.note("race", msg)
	ex.reportEvent("no-data-race", msg)
}
