package symex

import (
	"fmt"
	"go/types"

	"golang.org/x/tools/go/ssa"

	"verif/engine/smt"
)

func (ex *Exec) callBuiltin(caller *frame, fn *ssa.Builtin, args []Value) Value {
	c := ex.ctx
	switch fn.Name() {
	case "append":
		if len(args) == 1 {
			return args[0]
		}
		dst := args[0].(Slice)
		var src []Value
		switch s := args[1].(type) {
		case Slice:
			src = s.A
		case string:
			for i := 0; i < len(s); i++ {
				src = append(src, c.Const(8, uint64(s[i])))
			}
		}
		if len(src) == 0 {
			return dst
		}
		n := len(dst.A) + len(src)
		if n <= cap(dst.A) {
			r := dst.A[:n]
			for i, v := range src {
				r[len(dst.A)+i] = copyVal(v)
			}
			return Slice{A: r}
		}
		// reallocate: Go's growth policy is unspecified beyond "sufficiently large"; model
		// amortised doubling (what the gc runtime does for small slices).
		newCap := cap(dst.A) * 2
		if newCap < n {
			newCap = n
		}
		r := make([]Value, n, newCap)
		for i, v := range dst.A {
			r[i] = copyVal(v)
		}
		for i, v := range src {
			r[len(dst.A)+i] = copyVal(v)
		}
		// zero the spare capacity
		elemT := fn.Type().(*types.Signature).Params().At(0).Type().Underlying().(*types.Slice).Elem()
		full := r[:newCap]
		for i := n; i < newCap; i++ {
			full[i] = ex.zero(elemT)
		}
		return Slice{A: r}

	case "copy":
		dst := args[0].(Slice)
		var src []Value
		switch s := args[1].(type) {
		case Slice:
			src = s.A
		case string:
			for i := 0; i < len(s); i++ {
				src = append(src, c.Const(8, uint64(s[i])))
			}
		}
		n := len(dst.A)
		if len(src) < n {
			n = len(src)
		}
		// memmove semantics
		tmp := make([]Value, n)
		for i := 0; i < n; i++ {
			tmp[i] = copyVal(src[i])
		}
		for i := 0; i < n; i++ {
			storeInto(&dst.A[i], tmp[i])
		}
		return c.ConstS(64, int64(n))

	case "close":
		ex.rt.chanClose(caller, args[0].(*Chan))
		return nil

	case "delete":
		m := args[0].(*MapV)
		if m != nil {
			ex.mapDelete(m, args[1])
		}
		return nil

	case "clear":
		switch x := args[0].(type) {
		case *MapV:
			if x != nil {
				x.Entries = nil
			}
		case Slice:
			elemT := fn.Type().(*types.Signature).Params().At(0).Type().Underlying().(*types.Slice).Elem()
			for i := range x.A {
				storeInto(&x.A[i], ex.zero(elemT))
			}
		}
		return nil

	case "print", "println":
		return nil

	case "len":
		switch x := args[0].(type) {
		case string:
			return c.ConstS(64, int64(len(x)))
		case Array:
			return c.ConstS(64, int64(len(x)))
		case *Value:
			return c.ConstS(64, int64(len((*x).(Array))))
		case Slice:
			return c.ConstS(64, int64(len(x.A)))
		case *MapV:
			if x == nil {
				return c.ConstS(64, 0)
			}
			return c.ConstS(64, int64(len(x.Entries)))
		case *Chan:
			// len(ch) observes the channel's buffer: with several goroutines it is a visible
			// operation that depends on every send / receive / close of that channel
			if x != nil && caller != nil && len(ex.rt.gs) > 1 {
				g := caller.gor()
				ex.rt.visible(g, &pendingOp{kind: opAtomic, obj: x})
				g.pending = nil
			}
			return ex.rt.chanLen(x)
		}
		unsupp("len of %T", args[0])

	case "cap":
		switch x := args[0].(type) {
		case Array:
			return c.ConstS(64, int64(len(x)))
		case *Value:
			return c.ConstS(64, int64(len((*x).(Array))))
		case Slice:
			return c.ConstS(64, int64(cap(x.A)))
		case *Chan:
			if x == nil {
				return c.ConstS(64, 0)
			}
			return c.ConstS(64, int64(x.cap))
		}
		unsupp("cap of %T", args[0])

	case "min", "max":
		sig := fn.Type().(*types.Signature)
		t := sig.Params().At(0).Type()
		res := args[0]
		for _, a := range args[1:] {
			switch r := res.(type) {
			case *smt.Term:
				_, signed, _ := isIntType(t)
				op := smt.OpULt
				if signed {
					op = smt.OpSLt
				}
				at := a.(*smt.Term)
				var lt *smt.Term
				if fn.Name() == "min" {
					lt = c.Cmp(op, at, r)
				} else {
					lt = c.Cmp(op, r, at)
				}
				res = c.Ite(lt, at, r)
			case string:
				as := a.(string)
				if (fn.Name() == "min") == (as < r) {
					res = as
				}
			default:
				unsupp("min/max on %T", res)
			}
		}
		return res

	case "panic":
		panic(targetPanic{v: args[0]})

	case "recover":
		return ex.doRecover(caller)

	case "ssa:wrapnilchk":
		recv := args[0]
		if isNilValue(recv) {
			ex.goPanic(fmt.Sprintf("value method %s.%s called using nil pointer", ex.valueString(args[1]), ex.valueString(args[2])))
		}
		return recv
	}
	unsupp("builtin %s", fn.Name())
	return nil
}

func (ex *Exec) doRecover(caller *frame) Value {
	// recover() is effective only when called directly by a deferred function of a panicking frame.
	if caller != nil && !caller.panicking && caller.caller != nil && caller.caller.panicking {
		caller.caller.panicking = false
		p := caller.caller.panic
		caller.caller.panic = nil
		if tp, ok := p.(targetPanic); ok {
			if tp.v == nil {
				return Iface{T: runtimeErrorType, V: tp.msg}
			}
			if i, ok := tp.v.(Iface); ok {
				return i
			}
			return Iface{T: types.Typ[types.String], V: tp.v}
		}
		panic(p)
	}
	return Iface{}
}

// ---- maps (association lists with symbolic keys)

// keyEq returns the term "a == b" for map keys.
func (ex *Exec) keyEq(m *MapV, a, b Value) *smt.Term {
	return ex.equals(m.KeyT, a, b)
}

func (ex *Exec) mapFind(m *MapV, k Value) *mapEntry {
	for _, e := range m.Entries {
		if ex.branch(ex.keyEq(m, e.K, k)) {
			return e
		}
	}
	return nil
}

func (ex *Exec) mapInsert(m *MapV, k, v Value) {
	if e := ex.mapFind(m, k); e != nil {
		e.V = copyVal(v)
		return
	}
	m.Entries = append(m.Entries, &mapEntry{K: copyVal(k), V: copyVal(v)})
}

func (ex *Exec) mapDelete(m *MapV, k Value) {
	for i, e := range m.Entries {
		if ex.branch(ex.keyEq(m, e.K, k)) {
			m.Entries = append(append([]*mapEntry(nil), m.Entries[:i]...), m.Entries[i+1:]...)
			return
		}
	}
}

type iter interface{ next() Tuple }

type mapIter struct {
	ex      *Exec
	m       *MapV
	pending []*mapEntry // snapshot in chosen order
	pos     int
}

// Go leaves map iteration order unspecified: for maps with at most 3 entries every order is
// explored (a choice point), larger maps are visited in insertion order (stated assumption).
func (ex *Exec) rangeIter(x Value, t types.Type) iter {
	switch x := x.(type) {
	case *MapV:
		it := &mapIter{ex: ex, m: x}
		if x != nil {
			ents := append([]*mapEntry(nil), x.Entries...)
			if ex.cfg.MapOrders && len(ents) >= 2 && len(ents) <= 3 {
				perms := permutations(len(ents))
				alts := make([]int, len(perms))
				for i := range alts {
					alts[i] = i
				}
				p := perms[ex.choose("maporder", alts)]
				for i, j := range p {
					it.pending = append(it.pending, ents[j])
					_ = i
				}
			} else {
				if len(ents) > 3 {
					ex.report.addAssumption("maps with more than 3 entries are ranged in insertion order only")
				}
				it.pending = ents
			}
		}
		return it
	case string:
		return &stringIter{ex: ex, s: []rune(x)}
	}
	unsupp("range over %T", x)
	return nil
}

func (r *Report) addAssumption(s string) {
	for _, a := range r.Assumptions {
		if a == s {
			return
		}
	}
	r.Assumptions = append(r.Assumptions, s)
}

func permutations(n int) [][]int {
	var out [][]int
	var rec func(cur []int, used int)
	rec = func(cur []int, used int) {
		if len(cur) == n {
			out = append(out, append([]int(nil), cur...))
			return
		}
		for i := 0; i < n; i++ {
			if used&(1<<i) == 0 {
				rec(append(cur, i), used|1<<i)
			}
		}
	}
	rec(nil, 0)
	return out
}

func (it *mapIter) next() Tuple {
	ex := it.ex
	for it.pos < len(it.pending) {
		e := it.pending[it.pos]
		it.pos++
		// entries deleted during iteration are not produced
		live := false
		for _, cur := range it.m.Entries {
			if cur == e {
				live = true
				break
			}
		}
		if live {
			return Tuple{ex.ctx.True, copyVal(e.K), copyVal(e.V)}
		}
	}
	return Tuple{ex.ctx.False, nil, nil}
}

type stringIter struct {
	ex  *Exec
	s   []rune
	pos int
	off int
}

func (it *stringIter) next() Tuple {
	c := it.ex.ctx
	if it.pos >= len(it.s) {
		return Tuple{c.False, c.ConstS(64, 0), c.ConstS(32, 0)}
	}
	r := it.s[it.pos]
	off := it.off
	it.pos++
	it.off += len(string(r))
	return Tuple{c.True, c.ConstS(64, int64(off)), c.ConstS(32, int64(r))}
}
