package symex

import (
	"fmt"
	"go/types"
	"math"

	"golang.org/x/tools/go/ssa"

	"verif/engine/smt"
)

// externals maps fully qualified function names (of the generic origin, for instantiations)
// to native models. Every use is counted in Report.Stubs and is part of the claim.
var externals = map[string]extFn{}

func init() {
	reg := func(name string, f extFn) { externals[name] = f }

	// ---- math (floats are concrete or opaque)
	f1 := func(name string, f func(float64) float64) {
		reg(name, func(fr *frame, args []Value) Value {
			x := args[0].(Float)
			if x.Sym == nil {
				return Float{V: f(x.V)}
			}
			return fr.ex.opaqueFloat(name)
		})
	}
	f1("math.Log", math.Log)
	f1("math.Exp", math.Exp)
	f1("math.Sqrt", math.Sqrt)
	f1("math.Abs", math.Abs)
	f1("math.Ceil", math.Ceil)
	reg("math.Floor", func(fr *frame, args []Value) Value {
		ex := fr.ex
		x := args[0].(Float)
		if x.Sym == nil {
			return Float{V: math.Floor(x.V)}
		}
		// integer-valued float whose payload is the solver's choice
		f := ex.opaqueFloat("floor")
		f.Sym.IsInt = true
		f.Sym.Int = ex.freshVar("floor.int", smt.BV(64), "int64")
		f.Sym.IsInf = ex.freshBool("floor.isinf")
		f.Sym.IsNaN = ex.freshBool("floor.isnan")
		ex.assume(ex.ctx.Not(ex.ctx.And(f.Sym.IsInf, f.Sym.IsNaN)))
		// the only opaque floats that reach Floor in juniper are quotients of two logarithms of
		// numbers in (0,1): non-negative. Finite payloads are assumed in [0, 2^40].
		c := ex.ctx
		ex.assume(c.And(c.Cmp(smt.OpSLe, c.ConstS(64, 0), f.Sym.Int), c.Cmp(smt.OpSLe, f.Sym.Int, c.ConstS(64, 1<<40))))
		ex.report.addAssumption("math.Floor of an opaque float returns an arbitrary integer-valued float in [0, 2^40], or Inf, or NaN (floats are not interpreted)")
		return f
	})
	reg("math.IsNaN", func(fr *frame, args []Value) Value {
		x := args[0].(Float)
		if x.Sym == nil {
			return fr.ex.ctx.Bool(math.IsNaN(x.V))
		}
		if x.Sym.IsNaN != nil {
			return x.Sym.IsNaN
		}
		return fr.ex.freshBool("isnan")
	})
	reg("math.IsInf", func(fr *frame, args []Value) Value {
		x := args[0].(Float)
		if x.Sym == nil {
			return fr.ex.ctx.Bool(math.IsInf(x.V, int(args[1].(*smt.Term).SVal())))
		}
		if x.Sym.IsInf != nil {
			return x.Sym.IsInf
		}
		return fr.ex.freshBool("isinf")
	})

	// ---- runtime
	// GOMAXPROCS: one arbitrary value in [1, maxProcs] per path (every call with n < 1 reads the
	// same value); NumCPU: an arbitrary value in [1, 2*maxProcs], not tied to GOMAXPROCS (a process
	// may run with GOMAXPROCS below the number of CPUs).
	reg("runtime.GOMAXPROCS", func(fr *frame, args []Value) Value {
		ex := fr.ex
		c := ex.ctx
		if ex.gomaxprocs == nil {
			v := ex.freshVar("GOMAXPROCS", smt.BV(64), "int")
			ex.assume(c.And(c.Cmp(smt.OpSLe, c.ConstS(64, 1), v), c.Cmp(smt.OpSLe, v, c.ConstS(64, int64(ex.maxProcs())))))
			ex.gomaxprocs = v
		}
		prev := ex.gomaxprocs
		if n, ok := args[0].(*smt.Term); ok && n.IsConst() && n.SVal() >= 1 {
			ex.gomaxprocs = n
		}
		return prev
	})
	reg("runtime.NumCPU", func(fr *frame, args []Value) Value {
		ex := fr.ex
		c := ex.ctx
		v := ex.freshVar("NumCPU", smt.BV(64), "int")
		ex.assume(c.And(c.Cmp(smt.OpSLe, c.ConstS(64, 1), v), c.Cmp(smt.OpSLe, v, c.ConstS(64, int64(2*ex.maxProcs())))))
		return v
	})
	reg("runtime.Gosched", func(fr *frame, args []Value) Value { return nil })
	reg("runtime.Callers", func(fr *frame, args []Value) Value {
		// The stack depth is unknown to the program: the count is one of {0, 2, len(pc)} (empty,
		// short, buffer full), with at most two "full" answers per path so that callers that
		// loop until the buffer is not full terminate. The pcs themselves stay opaque zeros.
		ex := fr.ex
		s := args[1].(Slice)
		opts := []int{0}
		if len(s.A) >= 2 {
			opts = append(opts, 2)
		}
		if ex.callersFull < 2 && len(s.A) > 2 {
			opts = append(opts, len(s.A))
		}
		alts := make([]int, len(opts))
		for i := range alts {
			alts[i] = i
		}
		n := opts[ex.choose("runtime.Callers", alts)]
		if n == len(s.A) && n > 2 {
			ex.callersFull++
		}
		ex.report.addAssumption("runtime.Callers returns a count in {0, 2, len(pc)} (at most two full buffers per path); pcs are opaque")
		return ex.ctx.ConstS(64, int64(n))
	})
	// ---- formatting: opaque strings
	reg("fmt.Sprintf", func(fr *frame, args []Value) Value { return "<fmt.Sprintf>" })
	reg("fmt.Sprint", func(fr *frame, args []Value) Value { return "<fmt.Sprint>" })
	reg("fmt.Println", func(fr *frame, args []Value) Value {
		return Tuple{fr.ex.ctx.ConstS(64, 0), Iface{}}
	})
	reg("fmt.Errorf", func(fr *frame, args []Value) Value {
		return fr.ex.newError("<fmt.Errorf>")
	})
	reg("strconv.Itoa", func(fr *frame, args []Value) Value { return "<itoa>" })

	// ---- errors
	reg("errors.Is", func(fr *frame, args []Value) Value {
		return fr.ex.ctx.Bool(fr.ex.errorsIs(fr, args[0].(Iface), args[1].(Iface), 0))
	})
	reg("errors.Unwrap", func(fr *frame, args []Value) Value {
		return fr.ex.errorsUnwrap(fr, args[0].(Iface))
	})

	// ---- math/rand: arbitrary values in the documented ranges
	randInt := func(name string, w int, typ string) {
		reg(name, func(fr *frame, args []Value) Value {
			ex := fr.ex
			c := ex.ctx
			n := args[len(args)-1].(*smt.Term)
			if len(args) == 2 {
				if r, ok := args[0].(*Value); ok && r != nil {
					ex.rt.noteAccess(fr, r, true) // method on a *rand.Rand: unsynchronised state
				}
			}
			if !ex.branch(c.Cmp(smt.OpSLt, c.ConstS(w, 0), n)) {
				ex.goPanic("invalid argument to " + name)
			}
			v := ex.freshVar(name, smt.BV(w), typ)
			ex.assume(c.And(c.Cmp(smt.OpSLe, c.ConstS(w, 0), v), c.Cmp(smt.OpSLt, v, n)))
			return v
		})
	}
	// rand.NewSource / rand.New: an opaque generator object with one state cell. A *rand.Rand is
	// not safe for concurrent use: every method call on it is a plain write of that cell for the
	// happens-before race check (the top-level functions are synchronised and touch nothing).
	reg("math/rand.NewSource", func(fr *frame, args []Value) Value {
		cell := new(Value)
		*cell = Struct{fr.ex.ctx.ConstS(64, 0)}
		pkg := fr.ex.prog.ImportedPackage("math/rand")
		return Iface{T: types.NewPointer(pkg.Type("rngSource").Type()), V: cell}
	})
	reg("math/rand.New", func(fr *frame, args []Value) Value {
		cell := new(Value)
		*cell = Struct{fr.ex.ctx.ConstS(64, 0)}
		return cell
	})
	randInt("math/rand.Intn", 64, "int")
	randInt("math/rand.Int63n", 64, "int64")
	randInt("(*math/rand.Rand).Intn", 64, "int")
	randInt("(*math/rand.Rand).Int63n", 64, "int64")
	randFloat := func(fr *frame, args []Value) Value { return fr.ex.opaqueFloat("rand.Float64") }
	reg("math/rand.Float64", randFloat)
	reg("(*math/rand.Rand).Float64", randFloat)
	randShuffle := func(fr *frame, args []Value) Value {
		// Fisher-Yates as documented: for i = n-1 .. 1: j in [0,i]; swap(i, j)
		ex := fr.ex
		c := ex.ctx
		n := ex.concretize(args[len(args)-2].(*smt.Term), "Shuffle n")
		if n < 0 {
			ex.goPanic("invalid argument to Shuffle")
		}
		swap := args[len(args)-1]
		for i := n - 1; i > 0; i-- {
			j := ex.freshVar("shuffle.j", smt.BV(64), "int")
			ex.assume(c.And(c.Cmp(smt.OpSLe, c.ConstS(64, 0), j), c.Cmp(smt.OpSLe, j, c.ConstS(64, i))))
			ex.callValue(fr, swap, []Value{c.ConstS(64, i), j})
		}
		return nil
	}
	reg("math/rand.Shuffle", randShuffle)
	reg("(*math/rand.Rand).Shuffle", randShuffle)
}

func (ex *Exec) maxProcs() int { return 2 }

// newError builds a fresh error value with pointer identity (like errors.New).
func (ex *Exec) newError(msg string) Value {
	pkg := ex.prog.ImportedPackage("errors")
	if pkg == nil {
		unsupp("errors package not loaded")
	}
	t := pkg.Type("errorString").Type()
	cell := new(Value)
	*cell = Struct{msg}
	return Iface{T: types.NewPointer(t), V: cell}
}

// errorsIs implements the documented chain walk of errors.Is.
func (ex *Exec) errorsIs(fr *frame, err, target Iface, depth int) bool {
	if depth > 16 {
		ex.boundExceeded("errors.Is chain deeper than 16")
	}
	if err.T == nil || target.T == nil {
		return err.T == nil && target.T == nil
	}
	for {
		if types.Comparable(target.T) && types.Identical(err.T, target.T) {
			eq := ex.equals(err.T, err.V, target.V)
			if ex.branch(eq) {
				return true
			}
		}
		if m := ex.findMethod(err.T, "Is"); m != nil && m.Signature.Params().Len() == 1 {
			r := ex.callSSA(fr, m, []Value{err.V, target}, nil).(*smt.Term)
			if ex.branch(r) {
				return true
			}
		}
		if m := ex.findMethod(err.T, "Unwrap"); m != nil && m.Signature.Params().Len() == 0 && m.Signature.Results().Len() == 1 {
			res := ex.callSSA(fr, m, []Value{err.V}, nil)
			switch r := res.(type) {
			case Iface:
				if r.T == nil {
					return false
				}
				err = r
				continue
			case Slice:
				for _, e := range r.A {
					if ex.errorsIs(fr, e.(Iface), target, depth+1) {
						return true
					}
				}
				return false
			}
		}
		return false
	}
}

func (ex *Exec) errorsUnwrap(fr *frame, err Iface) Value {
	if err.T == nil {
		return Iface{}
	}
	if m := ex.findMethod(err.T, "Unwrap"); m != nil && m.Signature.Params().Len() == 0 {
		if r, ok := ex.callSSA(fr, m, []Value{err.V}, nil).(Iface); ok {
			return r
		}
	}
	return Iface{}
}

func (ex *Exec) findMethod(t types.Type, name string) *ssa.Function {
	ms := ex.prog.MethodSets.MethodSet(t)
	for i := 0; i < ms.Len(); i++ {
		sel := ms.At(i)
		if sel.Obj().Name() == name {
			return ex.prog.MethodValue(sel)
		}
	}
	return nil
}

var _ = fmt.Sprintf

func init() {
	// sort.Slice / SliceStable: the reflection-based swapper cannot be executed; modelled as an
	// insertion sort driven by the program's own less(i, j) (one of the permitted outcomes of an
	// unstable sort; ties keep their input order).
	sortSlice := func(fr *frame, args []Value) Value {
		ex := fr.ex
		it := args[0].(Iface)
		s, ok := it.V.(Slice)
		if !ok {
			ex.goPanic("sort.Slice: argument is not a slice")
		}
		less := args[1]
		ex.report.addAssumption("sort.Slice/SliceStable modelled as a stable insertion sort over the program's less(i, j)")
		c := ex.ctx
		for i := 1; i < len(s.A); i++ {
			for j := i; j > 0; j-- {
				r := ex.callValue(fr, less, []Value{c.ConstS(64, int64(j)), c.ConstS(64, int64(j-1))}).(*smt.Term)
				if !ex.branch(r) {
					break
				}
				a, b := copyVal(s.A[j]), copyVal(s.A[j-1])
				storeInto(&s.A[j], b)
				storeInto(&s.A[j-1], a)
			}
		}
		return nil
	}
	externals["sort.Slice"] = sortSlice
	externals["sort.SliceStable"] = sortSlice
	externals["sort.SliceIsSorted"] = func(fr *frame, args []Value) Value {
		ex := fr.ex
		s := args[0].(Iface).V.(Slice)
		c := ex.ctx
		res := c.True
		for i := len(s.A) - 1; i > 0; i-- {
			r := ex.callValue(fr, args[1], []Value{c.ConstS(64, int64(i)), c.ConstS(64, int64(i-1))}).(*smt.Term)
			res = c.And(res, c.Not(r))
		}
		return res
	}
}

func init() {
	// errors.As: documented chain walk (assignable type, As method, Unwrap), natively, because the
	// stdlib body uses reflection.
	externals["errors.As"] = func(fr *frame, args []Value) Value {
		ex := fr.ex
		err := args[0].(Iface)
		tgt := args[1].(Iface)
		if tgt.T == nil {
			ex.goPanic("errors: target cannot be nil")
		}
		pt, ok := tgt.T.Underlying().(*types.Pointer)
		cell, _ := tgt.V.(*Value)
		if !ok || cell == nil {
			ex.goPanic("errors: target must be a non-nil pointer")
		}
		want := pt.Elem()
		for depth := 0; err.T != nil; depth++ {
			if depth > 16 {
				ex.boundExceeded("errors.As chain deeper than 16")
			}
			if it, isIface := want.Underlying().(*types.Interface); isIface {
				if types.Implements(err.T, it) {
					storeInto(cell, err)
					return ex.ctx.True
				}
			} else if types.Identical(err.T, want) {
				storeInto(cell, err.V)
				return ex.ctx.True
			}
			if m := ex.findMethod(err.T, "As"); m != nil && m.Signature.Params().Len() == 1 {
				if ex.branch(ex.callSSA(fr, m, []Value{err.V, tgt}, nil).(*smt.Term)) {
					return ex.ctx.True
				}
			}
			m := ex.findMethod(err.T, "Unwrap")
			if m == nil || m.Signature.Params().Len() != 0 {
				break
			}
			next, ok := ex.callSSA(fr, m, []Value{err.V}, nil).(Iface)
			if !ok {
				break
			}
			err = next
		}
		return ex.ctx.False
	}
}
