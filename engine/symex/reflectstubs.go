package symex

import (
	"go/types"

	"verif/engine/smt"
)

// Native stand-ins for the three reflect entry points chans.Merge uses for >= 4 (or 0) inputs.
// A reflect.Value is represented as the struct {refType, payload, flag}; reflect.Select has the
// semantics of a select statement over the given receive cases.

type refType struct{ t types.Type }

func init() {
	externals["reflect.ValueOf"] = func(fr *frame, args []Value) Value {
		it := args[0].(Iface)
		return Struct{refType{it.T}, it.V, fr.ex.ctx.Const(64, 1)}
	}
	externals["(reflect.Value).Interface"] = func(fr *frame, args []Value) Value {
		v := args[0].(Struct)
		rt, ok := v[0].(refType)
		if !ok {
			fr.ex.goPanic("reflect: call of reflect.Value.Interface on zero Value")
		}
		return Iface{T: rt.t, V: v[1]}
	}
	externals["reflect.Select"] = func(fr *frame, args []Value) Value {
		ex := fr.ex
		rtm := ex.rt
		cases := args[0].(Slice).A
		g := fr.gor()
		p := &pendingOp{kind: opSelect, blocking: true}
		var elemTs []types.Type
		for _, c := range cases {
			cs := c.(Struct) // SelectCase{Dir, Chan, Send}
			dir := cs[0].(*smt.Term)
			if !dir.IsConst() || dir.SVal() != 2 { // SelectRecv
				unsupp("reflect.Select with a non-receive case")
			}
			chv := cs[1].(Struct)
			ch, _ := chv[1].(*Chan)
			p.cases = append(p.cases, selCase{ch: ch})
			var et types.Type
			if rt, ok := chv[0].(refType); ok {
				et = rt.t.Underlying().(*types.Chan).Elem()
			}
			elemTs = append(elemTs, et)
		}
		rtm.visible(g, p)
		g.pending = nil
		chosen := -1
		var val Value
		ok := false
		var ready []int
		for i, c := range p.cases {
			if rtm.recvReady(c.ch) {
				ready = append(ready, i)
			}
		}
		if len(ready) > 0 {
			chosen = ready[0]
			if len(ready) > 1 {
				chosen = ex.choose("select", ready)
			}
			val, ok = rtm.doRecv(p.cases[chosen].ch)
		} else {
			for i, c := range p.cases {
				if c.ch != nil {
					c.ch.recvq = append(c.ch.recvq, &waiter{g: g, p: p, caseIdx: i})
				}
			}
			rtm.park(g, p)
			chosen, val, ok = p.caseIdx, p.result, p.recvOk
		}
		if val == nil {
			val = ex.zero(elemTs[chosen])
		}
		return Tuple{ex.ctx.ConstS(64, int64(chosen)), Struct{refType{elemTs[chosen]}, val, ex.ctx.Const(64, 1)}, ex.ctx.Bool(ok)}
	}
}
