package symex

import (
	"go/types"

	"verif/engine/smt"
)

// Native models of sync, sync/atomic with the documented blocking semantics. State lives in a
// per-path side table keyed by the address of the sync object inside the program's memory.

type mutexState struct {
	locked  bool
	readers int
}

type wgState struct{ n int64 }

type onceState struct {
	done bool
	mu   mutexState
}

type poolState struct{ items []Value }

type condWaiter struct {
	g        *Goroutine
	signaled bool
}

type condState struct {
	waiters []*condWaiter
}

func (ex *Exec) mutexOf(p Value) *mutexState {
	a := p.(*Value)
	if a == nil {
		ex.goPanic("runtime error: invalid memory address or nil pointer dereference")
	}
	if s, ok := ex.syncObjs[a]; ok {
		return s.(*mutexState)
	}
	s := &mutexState{}
	ex.syncObjs[a] = s
	return s
}

func (ex *Exec) wgOf(p Value) *wgState {
	a := p.(*Value)
	if s, ok := ex.syncObjs[a]; ok {
		return s.(*wgState)
	}
	s := &wgState{}
	ex.syncObjs[a] = s
	return s
}

func (ex *Exec) onceOf(p Value) *onceState {
	a := p.(*Value)
	if s, ok := ex.syncObjs[a]; ok {
		return s.(*onceState)
	}
	s := &onceState{}
	ex.syncObjs[a] = s
	return s
}

func (ex *Exec) condOf(p Value) *condState {
	a := p.(*Value)
	if s, ok := ex.syncObjs[a]; ok {
		return s.(*condState)
	}
	s := &condState{}
	ex.syncObjs[a] = s
	return s
}

func (ex *Exec) lockOp(fr *frame, m *mutexState, write bool) {
	g := fr.gor()
	kind := opLock
	cond := func() bool { return !m.locked && m.readers == 0 }
	if !write {
		kind = opRLock
		cond = func() bool { return !m.locked }
	}
	ex.rt.visible(g, &pendingOp{kind: kind, obj: m, cond: cond})
	g.pending = nil
	if write {
		m.locked = true
	} else {
		m.readers++
	}
}

func (ex *Exec) unlockOp(fr *frame, m *mutexState, write bool) {
	g := fr.gor()
	ex.rt.visible(g, &pendingOp{kind: opUnlock, obj: m})
	g.pending = nil
	if write {
		if !m.locked {
			ex.fatal("sync: unlock of unlocked mutex")
		}
		m.locked = false
	} else {
		if m.readers <= 0 {
			ex.fatal("sync: RUnlock of unlocked RWMutex")
		}
		m.readers--
	}
}

// fatal models an unrecoverable runtime throw: reported as an unexpected panic.
func (ex *Exec) fatal(msg string) {
	panic(targetPanic{msg: "fatal error: " + msg})
}

func (ex *Exec) atomicOp(fr *frame, addr Value) *Value {
	a := addr.(*Value)
	if a == nil {
		ex.goPanic("runtime error: invalid memory address or nil pointer dereference")
	}
	g := fr.gor()
	ex.rt.visible(g, &pendingOp{kind: opAtomic, obj: a})
	g.pending = nil
	return a
}

func init() {
	reg := func(name string, f extFn) { externals[name] = f }

	reg("(*sync.Mutex).Lock", func(fr *frame, args []Value) Value {
		fr.ex.lockOp(fr, fr.ex.mutexOf(args[0]), true)
		return nil
	})
	reg("(*sync.Mutex).Unlock", func(fr *frame, args []Value) Value {
		fr.ex.unlockOp(fr, fr.ex.mutexOf(args[0]), true)
		return nil
	})
	reg("(*sync.Mutex).TryLock", func(fr *frame, args []Value) Value {
		ex := fr.ex
		m := ex.mutexOf(args[0])
		g := fr.gor()
		ex.rt.visible(g, &pendingOp{kind: opAtomic, obj: m})
		g.pending = nil
		if m.locked {
			return ex.ctx.False
		}
		m.locked = true
		return ex.ctx.True
	})
	reg("(*sync.RWMutex).Lock", func(fr *frame, args []Value) Value {
		fr.ex.lockOp(fr, fr.ex.mutexOf(args[0]), true)
		return nil
	})
	reg("(*sync.RWMutex).Unlock", func(fr *frame, args []Value) Value {
		fr.ex.unlockOp(fr, fr.ex.mutexOf(args[0]), true)
		return nil
	})
	reg("(*sync.RWMutex).RLock", func(fr *frame, args []Value) Value {
		fr.ex.lockOp(fr, fr.ex.mutexOf(args[0]), false)
		return nil
	})
	reg("(*sync.RWMutex).RUnlock", func(fr *frame, args []Value) Value {
		fr.ex.unlockOp(fr, fr.ex.mutexOf(args[0]), false)
		return nil
	})

	reg("(*sync.WaitGroup).Add", func(fr *frame, args []Value) Value {
		ex := fr.ex
		w := ex.wgOf(args[0])
		g := fr.gor()
		ex.rt.visible(g, &pendingOp{kind: opAtomic, obj: w})
		g.pending = nil
		w.n += ex.concretize(args[1].(*smt.Term), "WaitGroup.Add delta")
		if w.n < 0 {
			ex.goPanic("sync: negative WaitGroup counter")
		}
		return nil
	})
	reg("(*sync.WaitGroup).Done", func(fr *frame, args []Value) Value {
		ex := fr.ex
		w := ex.wgOf(args[0])
		g := fr.gor()
		ex.rt.visible(g, &pendingOp{kind: opAtomic, obj: w})
		g.pending = nil
		w.n--
		if w.n < 0 {
			ex.goPanic("sync: negative WaitGroup counter")
		}
		return nil
	})
	reg("(*sync.WaitGroup).Wait", func(fr *frame, args []Value) Value {
		ex := fr.ex
		w := ex.wgOf(args[0])
		g := fr.gor()
		ex.rt.visible(g, &pendingOp{kind: opWGWait, obj: w, cond: func() bool { return w.n == 0 }})
		g.pending = nil
		return nil
	})

	reg("(*sync.Once).Do", func(fr *frame, args []Value) Value {
		ex := fr.ex
		o := ex.onceOf(args[0])
		// Do holds an internal mutex while f runs: concurrent callers block until it returns.
		// (No Go-level defer may perform scheduling operations here: engine panics that end the
		// path unwind through this frame.)
		ex.lockOp(fr, &o.mu, true)
		if !o.done {
			func() {
				defer func() {
					if r := recover(); r != nil {
						if _, ok := r.(targetPanic); ok {
							// like the real Once: done is set and the mutex released even if f panics
							o.done = true
							ex.unlockOp(fr, &o.mu, true)
						}
						panic(r)
					}
				}()
				ex.callValue(fr, args[1], nil)
			}()
			o.done = true
		}
		ex.unlockOp(fr, &o.mu, true)
		return nil
	})

	// ---- sync.Pool: Put keeps the item; Get hands out a kept item or (the pool may drop items at
	// any time) falls back to New - a choice point when both are possible. Last field of the
	// struct is New.
	reg("(*sync.Pool).Put", func(fr *frame, args []Value) Value {
		ex := fr.ex
		a := args[0].(*Value)
		ps, _ := ex.syncObjs[a].(*poolState)
		if ps == nil {
			ps = &poolState{}
			ex.syncObjs[a] = ps
		}
		g := fr.gor()
		ex.rt.visible(g, &pendingOp{kind: opAtomic, obj: ps})
		g.pending = nil
		if iv, ok := args[1].(Iface); ok && iv.T != nil {
			ps.items = append(ps.items, iv)
		}
		return nil
	})
	reg("(*sync.Pool).Get", func(fr *frame, args []Value) Value {
		ex := fr.ex
		a := args[0].(*Value)
		ps, _ := ex.syncObjs[a].(*poolState)
		if ps == nil {
			ps = &poolState{}
			ex.syncObjs[a] = ps
		}
		g := fr.gor()
		ex.rt.visible(g, &pendingOp{kind: opAtomic, obj: ps})
		g.pending = nil
		st := (*a).(Struct)
		newFn := st[len(st)-1]
		if len(ps.items) > 0 {
			pick := 0
			if !isNilValue(newFn) {
				pick = ex.choose("pool", []int{0, 1})
			}
			if pick == 0 {
				it := ps.items[len(ps.items)-1]
				ps.items = ps.items[:len(ps.items)-1]
				return it
			}
		}
		if isNilValue(newFn) {
			return Iface{}
		}
		return ex.callValue(fr, newFn, nil)
	})

	// sync.Cond: struct{noCopy; L Locker; notify; checker}
	condL := func(fr *frame, c Value) Iface {
		st := (*c.(*Value)).(Struct)
		return st[1].(Iface)
	}
	callLocker := func(fr *frame, l Iface, name string) {
		ex := fr.ex
		if l.T == nil {
			ex.goPanic("runtime error: invalid memory address or nil pointer dereference (Cond.L is nil)")
		}
		m := ex.findMethod(l.T, name)
		ex.callSSA(fr, m, []Value{l.V}, nil)
	}
	reg("(*sync.Cond).Wait", func(fr *frame, args []Value) Value {
		ex := fr.ex
		cs := ex.condOf(args[0])
		g := fr.gor()
		w := &condWaiter{g: g}
		// add to the notify list, then unlock (as the runtime does)
		cs.waiters = append(cs.waiters, w)
		callLocker(fr, condL(fr, args[0]), "Unlock")
		ex.rt.visible(g, &pendingOp{kind: opCondWake, obj: cs, cond: func() bool { return w.signaled }})
		g.pending = nil
		callLocker(fr, condL(fr, args[0]), "Lock")
		return nil
	})
	reg("(*sync.Cond).Signal", func(fr *frame, args []Value) Value {
		ex := fr.ex
		cs := ex.condOf(args[0])
		g := fr.gor()
		ex.rt.visible(g, &pendingOp{kind: opAtomic, obj: cs})
		g.pending = nil
		for _, w := range cs.waiters {
			if !w.signaled {
				w.signaled = true
				break
			}
		}
		return nil
	})
	reg("(*sync.Cond).Broadcast", func(fr *frame, args []Value) Value {
		ex := fr.ex
		cs := ex.condOf(args[0])
		g := fr.gor()
		ex.rt.visible(g, &pendingOp{kind: opAtomic, obj: cs})
		g.pending = nil
		for _, w := range cs.waiters {
			w.signaled = true
		}
		return nil
	})

	// ---- sync/atomic on plain integers
	atomicInt := func(suffix string, w int) {
		reg("sync/atomic.Load"+suffix, func(fr *frame, args []Value) Value {
			a := fr.ex.atomicOp(fr, args[0])
			return *a
		})
		reg("sync/atomic.Store"+suffix, func(fr *frame, args []Value) Value {
			a := fr.ex.atomicOp(fr, args[0])
			*a = args[1]
			return nil
		})
		reg("sync/atomic.Add"+suffix, func(fr *frame, args []Value) Value {
			a := fr.ex.atomicOp(fr, args[0])
			nv := fr.ex.ctx.Bin(smt.OpAdd, (*a).(*smt.Term), args[1].(*smt.Term))
			*a = nv
			return nv
		})
		reg("sync/atomic.Swap"+suffix, func(fr *frame, args []Value) Value {
			a := fr.ex.atomicOp(fr, args[0])
			old := *a
			*a = args[1]
			return old
		})
		reg("sync/atomic.CompareAndSwap"+suffix, func(fr *frame, args []Value) Value {
			ex := fr.ex
			a := ex.atomicOp(fr, args[0])
			if ex.branch(ex.ctx.Eq((*a).(*smt.Term), args[1].(*smt.Term))) {
				*a = args[2]
				return ex.ctx.True
			}
			return ex.ctx.False
		})
	}
	atomicInt("Int32", 32)
	atomicInt("Int64", 64)
	atomicInt("Uint32", 32)
	atomicInt("Uint64", 64)
	atomicInt("Uintptr", 64)

	// ---- atomic.Pointer[T]: struct{_ [0]*T; _ noCopy; v unsafe.Pointer}; we keep a *Value in field v
	regPtr := func(m string, f extFn) {
		reg("(*sync/atomic.Pointer)."+m, f)
		reg("(*sync/atomic.Pointer[T])."+m, f)
	}
	ptrCell := func(fr *frame, p Value) *Value {
		a := p.(*Value)
		if a == nil {
			fr.ex.goPanic("runtime error: invalid memory address or nil pointer dereference")
		}
		st := (*a).(Struct)
		cell := &st[len(st)-1]
		g := fr.gor()
		fr.ex.rt.visible(g, &pendingOp{kind: opAtomic, obj: cell})
		g.pending = nil
		if *cell == nil {
			*cell = (*Value)(nil)
		}
		return cell
	}
	regPtr("Load", func(fr *frame, args []Value) Value {
		return *ptrCell(fr, args[0])
	})
	regPtr("Store", func(fr *frame, args []Value) Value {
		*ptrCell(fr, args[0]) = args[1]
		return nil
	})
	regPtr("Swap", func(fr *frame, args []Value) Value {
		c := ptrCell(fr, args[0])
		old := *c
		*c = args[1]
		return old
	})
	regPtr("CompareAndSwap", func(fr *frame, args []Value) Value {
		c := ptrCell(fr, args[0])
		if (*c).(*Value) == args[1].(*Value) {
			*c = args[2]
			return fr.ex.ctx.True
		}
		return fr.ex.ctx.False
	})
}

var _ = types.Typ
