package symex

import (
	"fmt"
	"os"
	"go/types"
	"sort"
	"strconv"
	"strings"
	"time"

	"golang.org/x/tools/go/ssa"

	"verif/engine/smt"
)

type Config struct {
	Solver       string // z3-new | z3 | cvc5
	QueryTimeout int    // ms
	Unwind       int    // max visits of one block per frame activation
	MaxSteps     int    // instructions per path
	MaxPaths     int
	MaxConcretize int   // max feasible values enumerated at one case-split
	Deadline     time.Time
	CaseBudget   time.Duration
	Trace        bool
	MaxViolations int
	// ViolationGrace: once a violation whose label is not a recorded known finding has been found,
	// the case is explored for at most this much longer (other labels may still turn up), then stopped.
	ViolationGrace time.Duration
	KnownLabel     func(label string) bool
	MapOrders    bool // fork over iteration orders of small maps
	ForceChoices []int // debugging: replay exactly this choice sequence (one path)
	ArithFirst bool // arithmetic-heavy harness: queries the incremental core does not decide in 250 ms go straight to cvc5's integer encoding
	Cvc5Fallback bool // on z3 unknown: decide the query with cvc5 --solve-bv-as-int (linear 64-bit arithmetic)
	NoRaceCheck bool // disable the happens-before race check of library code
	MaxTimerFires int // timer-fire events per path
	// PromptTime: discrete-event reading of the time model - computation takes no time; the clock
	// moves only when no goroutine can run, to the due time of the earliest armed timer, which
	// fires exactly then. A subset of the behaviours of the general model (a machine that is
	// never late), in which upper bounds on latencies can be stated.
	PromptTime bool
	PreemptBound int  // >= 0: explore schedules with at most this many preemptions (no sleep sets); -1: all schedules with sleep sets
}

func DefaultConfig() Config {
	return Config{Solver: "z3-new", QueryTimeout: 60000, Unwind: 80, MaxSteps: 2000000, MaxPaths: 5000000, MaxConcretize: 80, MaxViolations: 3, MapOrders: true, PreemptBound: -1, Cvc5Fallback: true, MaxTimerFires: 6}
}

type choicePoint struct {
	kind        string
	choice      int
	rest        []int
	forced      bool
	levelBefore int
}

// NondetVar records one symbolic input created on the current path.
type NondetVar struct {
	Name string
	Term *smt.Term
	Type string
}

type Violation struct {
	Label   string            `json:"label"`
	Kind    string            `json:"kind"` // assert | panic | deadlock | unwind
	Msg     string            `json:"msg,omitempty"`
	Model   []ModelEntry      `json:"model"`
	Choices []int             `json:"choices"`
	VChoices []int            `json:"vchoices,omitempty"`
	Concurrent bool           `json:"concurrent,omitempty"`
	Extra   map[string]string `json:"extra,omitempty"`
	Pos     string            `json:"pos,omitempty"`
}

type ModelEntry struct {
	Name string `json:"name"`
	Type string `json:"type"`
	Val  int64  `json:"val"`
}

type CoverWitness struct {
	Label   string       `json:"label"`
	Model   []ModelEntry `json:"model"`
	Choices []int        `json:"choices"`
	VChoices []int       `json:"vchoices,omitempty"`
	Hits    int          `json:"hits"`
}

type Report struct {
	Entry        string                   `json:"entry"`
	Args         []int64                  `json:"args"`
	Paths        int                      `json:"paths"`
	Infeasible   int                      `json:"infeasible_paths"`
	Decisions    int                      `json:"decisions"`
	Steps        int64                    `json:"steps"`
	AssertsSym   int                      `json:"asserts_symbolic"`
	AssertsConc  int                      `json:"asserts_concrete"`
	Discharged   map[string]int           `json:"discharged"`
	Violations   []Violation              `json:"violations"`
	ViolationsN  int                      `json:"violations_total"`
	StoppedAfterViolation bool           `json:"stopped_after_violation,omitempty"`
	Covers       map[string]*CoverWitness `json:"covers"`
	Inconclusive []string                 `json:"inconclusive"`
	Functions    map[string]string        `json:"functions"`
	Stubs        map[string]int           `json:"stubs"`
	Queries      smt.Stats                `json:"queries"`
	WallS        float64                  `json:"wall_s"`
	Truncated    bool                     `json:"truncated"`
	SleepPruned  int                      `json:"sleep_pruned"`
	Assumptions  []string                 `json:"assumptions,omitempty"`
}

type Exec struct {
	prog   *ssa.Program
	ctx    *smt.Ctx
	solver *smt.Solver
	cfg    Config

	firstNewViolation time.Time
	gomaxprocs        *smt.Term
	dumpSeq           int
	lastReportModel   map[string]uint64
	pathNoteTerms     map[string]*smt.Term
	qcache            map[string]cachedAnswer

	// exploration state (persists across paths)
	trace   []choicePoint
	syncLen int
	report  *Report

	// per-path state
	tpos      int
	inSync    bool
	pc        []*smt.Term
	model     map[string]uint64
	evalMemo  map[*smt.Term]uint64
	pathVars  []NondetVar
	varSeq    int
	steps     int
	globals   map[*ssa.Global]*Value
	initDone  map[*ssa.Package]bool
	floatSeq  int
	pathNotes map[string]string
	rt        *runtimeState
	syncObjs  map[*Value]interface{}
	ptrIDs    map[*Value]int
	noteSeq   int
	ctxErrCells map[string]Value
	vchoices  []int
	callersFull int
	pending   []pendingAssert
	fp        *footprintRec
	flushing  bool
	queryTimeout int

	harnessPkg *ssa.Package
}

type pendingAssert struct {
	cond  *smt.Term
	label string
	pos   string
}

// sentinel panics
type pathEnd struct{ reason string }
type targetPanic struct {
	v   Value
	msg string
}

func NewExec(prog *ssa.Program, cfg Config) (*Exec, error) {
	s, err := smt.NewSolver(cfg.Solver, cfg.QueryTimeout)
	if err != nil {
		return nil, err
	}
	if f := os.Getenv("VERIF_SMTLOG"); f != "" {
		if w, err := os.Create(f); err == nil {
			s.Log = w
		}
	}
	return &Exec{prog: prog, ctx: smt.NewCtx(), solver: s, cfg: cfg}, nil
}

func (ex *Exec) Close() { ex.solver.Close() }

func (ex *Exec) Solver() *smt.Solver { return ex.solver }

// ---- solver interplay

func (ex *Exec) sendAssert(t *smt.Term) {
	if !ex.inSync {
		ex.solver.Assert(t)
	}
}

// assumeFeasible adds t to the path condition and ends the path at once if that makes it infeasible.
func (ex *Exec) assumeFeasible(t *smt.Term) {
	ex.assume(t)
	if t.IsConst() || ex.inSync {
		return
	}
	if ex.model != nil {
		return // the current model still satisfies the path condition
	}
	r, m := ex.checkSat(nil)
	if r == smt.Unsat {
		panic(pathEnd{"infeasible"})
	}
	if r == smt.Sat {
		ex.setModel(m)
	}
}

// assume adds t to the path condition.
func (ex *Exec) assume(t *smt.Term) {
	if t.IsConst() {
		if t.Val == 0 {
			panic(pathEnd{"infeasible"})
		}
		return
	}
	ex.pc = append(ex.pc, t)
	ex.sendAssert(t)
	if ex.model != nil && !ex.evalBool(t) {
		ex.model = nil
	}
}

func (ex *Exec) evalBool(t *smt.Term) bool {
	return smt.Eval(t, ex.model, ex.evalMemo) != 0
}

func (ex *Exec) setModel(m map[string]uint64) {
	ex.model = m
	ex.evalMemo = map[*smt.Term]uint64{}
}

func (ex *Exec) varTerms() []*smt.Term {
	ts := make([]*smt.Term, len(ex.pathVars))
	for i, v := range ex.pathVars {
		ts[i] = v.Term
	}
	return ts
}

// checkSat asks whether pc ∧ extra is satisfiable; on Sat it returns the model.
func (ex *Exec) checkSat(extra *smt.Term) (smt.Result, map[string]uint64) {
	if ex.inSync {
		panic("engine: query while replaying the in-sync prefix")
	}
	if !ex.flushing && len(ex.pending) > 0 {
		ex.flushAsserts()
	}
	if !ex.cfg.Deadline.IsZero() && time.Now().After(ex.cfg.Deadline) {
		panic(pathEnd{"deadline"})
	}
	var as []*smt.Term
	if extra != nil {
		as = append(as, extra)
	}
	// identical queries (the same set of hash-consed constraints, reached through a different
	// schedule) are answered from a per-case cache: same formula, same verdict and model
	key := ex.queryKey(extra)
	if c, ok := ex.qcache[key]; ok {
		ex.solver.Stats.CacheHits++
		return c.r, c.m
	}
	r, m := ex.checkSatUncached(as)
	if r == smt.Sat && !ex.modelSatisfies(m, as) {
		// a solver answered sat with an assignment that does not satisfy the query: never
		// trusted (seen once with cvc5's integer encoding); the query is re-decided by z3's
		// bit-blasting tactic with the long budget, and is unknown if that fails too
		ex.solver.Stats.BadModels++
		prevPT := ex.solver.PreferTactic
		ex.solver.NoTactic = false
		ex.solver.PreferTactic = true
		r, m = ex.solver.CheckModel(ex.varTerms(), ex.cfg.QueryTimeout, as...)
		ex.solver.PreferTactic = prevPT
		if r == smt.Sat && !ex.modelSatisfies(m, as) {
			r, m = smt.Unknown, nil
		}
	}
	if r != smt.Unknown {
		if ex.qcache == nil {
			ex.qcache = map[string]cachedAnswer{}
		}
		if len(ex.qcache) < 2000000 {
			ex.qcache[key] = cachedAnswer{r, m}
		}
	}
	return r, m
}

type cachedAnswer struct {
	r smt.Result
	m map[string]uint64
}

func (ex *Exec) queryKey(extra *smt.Term) string {
	ids := make([]int, 0, len(ex.pc)+1)
	for _, t := range ex.pc {
		ids = append(ids, t.ID)
	}
	if extra != nil {
		ids = append(ids, extra.ID)
	}
	sort.Ints(ids)
	b := make([]byte, 0, len(ids)*4)
	prev := -1
	for _, id := range ids {
		if id == prev {
			continue
		}
		prev = id
		b = strconv.AppendInt(b, int64(id), 36)
		b = append(b, ',')
	}
	return string(b)
}

// modelSatisfies evaluates the path condition and the extra assertions under m.
func (ex *Exec) modelSatisfies(m map[string]uint64, as []*smt.Term) bool {
	memo := map[*smt.Term]uint64{}
	for _, t := range ex.pc {
		if smt.Eval(t, m, memo) == 0 {
			return false
		}
	}
	for _, t := range as {
		if smt.Eval(t, m, memo) == 0 {
			return false
		}
	}
	return true
}

func (ex *Exec) checkSatUncached(as []*smt.Term) (smt.Result, map[string]uint64) {
	ex.solver.NoTactic = ex.cfg.ArithFirst && ex.queryTimeout == 0
	to := ex.queryTimeout
	if to == 0 && ex.cfg.Cvc5Fallback {
		to = 6000 // z3 gets a short budget first; cvc5's integer encoding takes over after that
	}
	r, m := ex.solver.CheckModel(ex.varTerms(), to, as...)
	if r == smt.Unknown && ex.cfg.Cvc5Fallback && ex.queryTimeout == 0 {
		asserts := append(append([]*smt.Term(nil), ex.pc...), as...)
		script := smt.Script(asserts, ex.varTerms())
		r2, m2, d := smt.SolveWithCvc5AsInt(script, ex.cfg.QueryTimeout)
		if dir := os.Getenv("VERIF_DUMP_CVC5"); dir != "" {
			ex.dumpSeq++
			os.WriteFile(fmt.Sprintf("%s/q%04d_%v.smt2", dir, ex.dumpSeq, r2), []byte(script), 0o644)
		}
		ex.solver.Stats.Time += d
		ex.solver.Stats.Cvc5++
		if r2 != smt.Unknown {
			ex.solver.Stats.Unknown--
			if r2 == smt.Sat {
				ex.solver.Stats.Sat++
			} else {
				ex.solver.Stats.Unsat++
			}
			return r2, m2
		}
	}
	return r, m
}

func (ex *Exec) inconclusive(msg string) {
	for _, m := range ex.report.Inconclusive {
		if m == msg {
			return
		}
	}
	if len(ex.report.Inconclusive) < 50 {
		ex.report.Inconclusive = append(ex.report.Inconclusive, msg)
	}
}

// take consumes/creates trace entry idx with the given constraint (may be nil).
func (ex *Exec) take(idx int, constraint *smt.Term, m map[string]uint64) {
	cp := &ex.trace[idx]
	if ex.inSync && idx < ex.syncLen {
		if constraint != nil && !cp.forced {
			ex.pc = append(ex.pc, constraint)
		}
		return
	}
	ex.inSync = false
	cp.levelBefore = ex.solver.Level()
	if !cp.forced {
		// every choice point that can be flipped opens a solver scope, also one without a
		// constraint of its own (a scheduling choice): assumptions made after it (clock
		// monotonicity, vAssume) must disappear from the solver when it is flipped
		ex.solver.Push()
		if constraint != nil {
			ex.solver.Assert(constraint)
			ex.pc = append(ex.pc, constraint)
		}
	}
	if m != nil {
		ex.setModel(m)
	} else if ex.model != nil && constraint != nil && !ex.evalBool(constraint) {
		ex.model = nil
	}
}

func (ex *Exec) replayCP(kind string) *choicePoint {
	cp := &ex.trace[ex.tpos]
	if cp.kind == "?" {
		cp.kind = kind
	}
	if cp.kind != kind {
		panic(fmt.Sprintf("engine: nondeterministic replay at choice %d: recorded %s, now %s", ex.tpos, cp.kind, kind))
	}
	return cp
}

// branch decides a symbolic condition, forking if both sides are feasible.
func (ex *Exec) branch(cond *smt.Term) bool {
	if cond.IsConst() {
		return cond.Val != 0
	}
	c := ex.ctx
	var m map[string]uint64
	if ex.tpos < len(ex.trace) {
		ex.replayCP("br")
	} else {
		var alts []int
		models := map[int]map[string]uint64{}
		if ex.model != nil {
			side := 0
			if ex.evalBool(cond) {
				side = 1
			}
			alts = append(alts, side)
			other := 1 - side
			oc := cond
			if other == 0 {
				oc = c.Not(cond)
			}
			r, om := ex.checkSat(oc)
			if r != smt.Unsat {
				alts = append(alts, other)
				models[other] = om
				if r == smt.Unknown {
					ex.inconclusive("branch feasibility unknown (kept): " + ex.solver.LastErr)
				}
			}
		} else {
			r1, m1 := ex.checkSat(cond)
			if r1 != smt.Unsat {
				alts = append(alts, 1)
				models[1] = m1
			}
			r0, m0 := ex.checkSat(c.Not(cond))
			if r0 != smt.Unsat {
				alts = append(alts, 0)
				models[0] = m0
			}
			if r1 == smt.Unknown || r0 == smt.Unknown {
				ex.inconclusive("branch feasibility unknown (kept): " + ex.solver.LastErr)
			}
		}
		if len(alts) == 0 {
			panic(pathEnd{"infeasible"})
		}
		ex.trace = append(ex.trace, choicePoint{kind: "br", choice: alts[0], rest: alts[1:], forced: len(alts) == 1})
		m = models[alts[0]]
		ex.report.Decisions++
	}
	idx := ex.tpos
	ex.tpos++
	ch := ex.trace[idx].choice
	con := cond
	if ch == 0 {
		con = c.Not(cond)
	}
	ex.take(idx, con, m)
	return ch == 1
}

// concretize forks over the feasible values of t (signed interpretation).
func (ex *Exec) concretize(t *smt.Term, what string) int64 {
	if t.IsConst() {
		return t.SVal()
	}
	c := ex.ctx
	if ex.tpos < len(ex.trace) {
		ex.replayCP("val")
	} else {
		var alts []int
		excl := c.True
		for {
			var r smt.Result
			var m map[string]uint64
			if len(alts) == 0 && ex.model != nil {
				r, m = smt.Sat, ex.model
			} else {
				r, m = ex.checkSat(excl)
			}
			if r == smt.Unknown {
				ex.inconclusive("concretize " + what + ": solver unknown")
				break
			}
			if r == smt.Unsat {
				break
			}
			v := smt.Eval(t, m, map[*smt.Term]uint64{})
			alts = append(alts, int(c.Const(t.Sort.W, v).SVal()))
			excl = c.And(excl, c.Not(c.Eq(t, c.Const(t.Sort.W, v))))
			if len(alts) > ex.cfg.MaxConcretize {
				ex.inconclusive(fmt.Sprintf("concretize %s: more than %d feasible values", what, ex.cfg.MaxConcretize))
				break
			}
		}
		if len(alts) == 0 {
			panic(pathEnd{"infeasible"})
		}
		sort.Ints(alts)
		ex.trace = append(ex.trace, choicePoint{kind: "val", choice: alts[0], rest: alts[1:], forced: len(alts) == 1})
		ex.report.Decisions++
	}
	idx := ex.tpos
	ex.tpos++
	v := ex.trace[idx].choice
	ex.take(idx, c.Eq(t, c.ConstS(t.Sort.W, int64(v))), nil)
	// forced entries do not assert, but downstream folding still wants the equality known
	return int64(v)
}

// choose is a pure (solver-free) n-way choice point: scheduling, select arms, orders.
func (ex *Exec) choose(kind string, alts []int) int {
	if len(alts) == 0 {
		panic("engine: choose with no alternatives")
	}
	if ex.tpos < len(ex.trace) {
		ex.replayCP(kind)
	} else {
		ex.trace = append(ex.trace, choicePoint{kind: kind, choice: alts[0], rest: append([]int(nil), alts[1:]...), forced: len(alts) == 1})
		if len(alts) > 1 {
			ex.report.Decisions++
		}
	}
	idx := ex.tpos
	ex.tpos++
	ex.take(idx, nil, nil)
	return ex.trace[idx].choice
}

func (ex *Exec) choicesSoFar() []int {
	out := make([]int, 0, ex.tpos)
	for i := 0; i < ex.tpos && i < len(ex.trace); i++ {
		out = append(out, ex.trace[i].choice)
	}
	return out
}

// ---- fresh symbols

func (ex *Exec) freshVar(hint string, s smt.Sort, typ string) *smt.Term {
	name := fmt.Sprintf("%s#%d", hint, ex.varSeq)
	ex.varSeq++
	t := ex.ctx.Var(name, s)
	ex.pathVars = append(ex.pathVars, NondetVar{Name: name, Term: t, Type: typ})
	return t
}

func (ex *Exec) freshBool(hint string) *smt.Term {
	return ex.freshVar(hint, smt.BoolSort, "bool")
}

func (ex *Exec) freshOfType(hint string, t types.Type) Value {
	switch u := t.Underlying().(type) {
	case *types.Basic:
		if w, _, ok := intWidth(u); ok {
			return ex.freshVar(hint, smt.BV(w), u.Name())
		}
		if u.Info()&types.IsBoolean != 0 {
			return ex.freshBool(hint)
		}
		if u.Info()&types.IsFloat != 0 {
			return ex.opaqueFloat(hint)
		}
	case *types.Struct:
		s := make(Struct, u.NumFields())
		for i := range s {
			s[i] = ex.freshOfType(hint+"."+u.Field(i).Name(), u.Field(i).Type())
		}
		return s
	case *types.Array:
		a := make(Array, u.Len())
		for i := range a {
			a[i] = ex.freshOfType(fmt.Sprintf("%s[%d]", hint, i), u.Elem())
		}
		return a
	}
	unsupp("nondet of type %v", t)
	return nil
}

func (ex *Exec) opaqueFloat(hint string) Float {
	ex.floatSeq++
	return Float{Sym: &FloatSym{ID: ex.floatSeq, Comment: hint}}
}

// ---- model extraction

func (ex *Exec) modelEntries(m map[string]uint64) []ModelEntry {
	ex.lastReportModel = m
	out := make([]ModelEntry, 0, len(ex.pathVars))
	for _, v := range ex.pathVars {
		val := m[v.Name]
		var sv int64
		if v.Term.Sort.K == smt.KBV {
			sv = ex.ctx.Const(v.Term.Sort.W, val).SVal()
			if v.Type[0] == 'u' && v.Term.Sort.W == 64 {
				sv = int64(val)
			} else if v.Type[0] == 'u' {
				sv = int64(val)
			}
		} else {
			sv = int64(val)
		}
		out = append(out, ModelEntry{Name: v.Name, Type: v.Type, Val: sv})
	}
	return out
}

func (ex *Exec) addViolation(v Violation) {
	ex.report.ViolationsN++
	v.Concurrent = ex.rt != nil && len(ex.rt.gs) > 1
	// keep one violation per label (first), up to MaxViolations labels
	for _, o := range ex.report.Violations {
		if o.Label == v.Label {
			return
		}
	}
	if len(ex.report.Violations) < ex.cfg.MaxViolations {
		ex.report.Violations = append(ex.report.Violations, v)
	}
	if ex.firstNewViolation.IsZero() && (ex.cfg.KnownLabel == nil || !ex.cfg.KnownLabel(v.Label)) {
		ex.firstNewViolation = time.Now()
	}
}

// assertTerm checks pc ⇒ cond.
func (ex *Exec) assertTerm(cond *smt.Term, label string, pos string) {
	if cond.IsConst() {
		ex.report.AssertsConc++
		if cond.Val != 0 {
			ex.report.Discharged[label]++
			return
		}
		// concretely false on a path whose pc is feasible (every branch was checked)
		r, m := smt.Sat, ex.model
		if m == nil {
			r, m = ex.checkSat(nil)
		}
		if r == smt.Sat {
			ex.addViolation(Violation{Label: label, Kind: "assert", Model: ex.modelEntries(m), Choices: ex.choicesSoFar(), VChoices: append([]int(nil), ex.vchoices...), Pos: pos, Extra: ex.notes()})
		} else if r == smt.Unknown {
			ex.inconclusive("assert " + label + ": path feasibility unknown")
		}
		panic(pathEnd{"assert-failed"})
	}
	ex.report.AssertsSym++
	ex.pending = append(ex.pending, pendingAssert{cond, label, pos})
}

// flushAsserts decides the queued assertions: one query for their conjunction; only if that is
// not unsat are they decided one by one (to attribute the failure). Discharged assertions are
// implied by the path condition, so nothing needs to be added to the solver for them.
func (ex *Exec) flushAsserts() {
	if len(ex.pending) == 0 || ex.flushing {
		return
	}
	ex.flushing = true
	ex.solver.PreferTactic = os.Getenv("VERIF_TACTIC") != "0"
	defer func() { ex.flushing = false; ex.solver.PreferTactic = false }()
	pend := ex.pending
	ex.pending = nil
	c := ex.ctx
	conj := c.True
	for _, p := range pend {
		conj = c.And(conj, p.cond)
	}
	if len(pend) > 1 {
		// the conjunction is only a shortcut: give it a short timeout and fall back to one query each
		ex.queryTimeout = 3000
		r, _ := ex.checkSat(c.Not(conj))
		ex.queryTimeout = 0
		if r == smt.Unsat {
			for _, p := range pend {
				ex.report.Discharged[p.label]++
			}
			return
		}
	}
	for _, p := range pend {
		r, m := ex.checkSat(c.Not(p.cond))
		switch r {
		case smt.Unsat:
			ex.report.Discharged[p.label]++
			continue
		case smt.Sat:
			ex.addViolation(Violation{Label: p.label, Kind: "assert", Model: ex.modelEntries(m), Choices: ex.choicesSoFar(), VChoices: append([]int(nil), ex.vchoices...), Pos: p.pos, Extra: ex.notes()})
		default:
			ex.inconclusive("assert " + p.label + ": solver unknown/timeout: " + ex.solver.LastErr)
		}
		ex.assume(p.cond)
	}
}

func (ex *Exec) notes() map[string]string {
	if len(ex.pathNotes) == 0 {
		return nil
	}
	out := map[string]string{}
	for k, v := range ex.pathNotes {
		out[k] = v
	}
	// symbolic notes are shown with their value under the model being reported
	if ex.lastReportModel != nil {
		memo := map[*smt.Term]uint64{}
		for k, t := range ex.pathNoteTerms {
			val := smt.Eval(t, ex.lastReportModel, memo)
			if t.Sort.K == smt.KBV {
				out[k] = fmt.Sprintf("%d", ex.ctx.Const(t.Sort.W, val).SVal())
			} else {
				out[k] = fmt.Sprintf("%v", val != 0)
			}
		}
	}
	return out
}

func (ex *Exec) cover(label string) {
	w := ex.report.Covers[label]
	if w != nil {
		w.Hits++
		return
	}
	r, m := smt.Sat, ex.model
	if m == nil {
		r, m = ex.checkSat(nil)
		if r == smt.Sat {
			ex.setModel(m)
		}
	}
	if r == smt.Unsat {
		panic(pathEnd{"infeasible"})
	}
	if r == smt.Unknown {
		ex.inconclusive("cover " + label + ": solver unknown")
		return
	}
	ex.report.Covers[label] = &CoverWitness{Label: label, Model: ex.modelEntries(m), Choices: ex.choicesSoFar(), VChoices: append([]int(nil), ex.vchoices...), Hits: 1}
}

// ---- path loop

func (ex *Exec) resetPath() {
	ex.tpos = 0
	ex.pc = ex.pc[:0]
	ex.model = nil
	ex.evalMemo = nil
	ex.pathVars = ex.pathVars[:0]
	ex.varSeq = 0
	ex.steps = 0
	ex.globals = map[*ssa.Global]*Value{}
	ex.initDone = map[*ssa.Package]bool{}
	ex.floatSeq = 0
	ex.pathNotes = nil
	ex.pathNoteTerms = nil
	ex.gomaxprocs = nil
	ex.syncObjs = map[*Value]interface{}{}
	ex.ptrIDs = map[*Value]int{}
	ex.noteSeq = 0
	ex.ctxErrCells = nil
	ex.vchoices = nil
	ex.callersFull = 0
	ex.pending = nil
	ex.flushing = false
	ex.fp = nil
	ex.rt = newRuntimeState(ex)
}

// backtrack advances the trace to the next unexplored alternative; false when exhausted.
func (ex *Exec) backtrack() bool {
	for len(ex.trace) > 0 {
		last := &ex.trace[len(ex.trace)-1]
		if len(last.rest) > 0 {
			last.choice = last.rest[0]
			last.rest = last.rest[1:]
			i := len(ex.trace) - 1
			if i < ex.syncLen || !ex.inSyncValidFor(i) {
				// nothing
			}
			ex.solver.PopTo(last.levelBefore)
			ex.syncLen = i
			return true
		}
		ex.trace = ex.trace[:len(ex.trace)-1]
	}
	return false
}

func (ex *Exec) inSyncValidFor(i int) bool { return true }

// Run explores every path of fn(args...) and returns the report.
func (ex *Exec) Run(fn *ssa.Function, args []int64) *Report {
	t0 := time.Now()
	if ex.cfg.CaseBudget > 0 {
		if d := t0.Add(ex.cfg.CaseBudget); ex.cfg.Deadline.IsZero() || d.Before(ex.cfg.Deadline) {
			ex.cfg.Deadline = d
		}
	}
	ex.report = &Report{Entry: fn.Name(), Args: args, Discharged: map[string]int{}, Covers: map[string]*CoverWitness{}, Functions: map[string]string{}, Stubs: map[string]int{}}
	ex.harnessPkg = fn.Pkg
	ex.trace = nil
	for _, c := range ex.cfg.ForceChoices {
		ex.trace = append(ex.trace, choicePoint{kind: "?", choice: c, forced: true})
	}
	ex.syncLen = 0
	first := true
	for {
		ex.resetPath()
		ex.inSync = !first
		first = false
		ex.runOnePath(fn, args)
		ex.report.Paths++
		ex.report.Steps += int64(ex.steps)
		if ex.report.Paths >= ex.cfg.MaxPaths {
			ex.report.Truncated = true
			ex.inconclusive("path budget exhausted")
			break
		}
		if !ex.cfg.Deadline.IsZero() && time.Now().After(ex.cfg.Deadline) {
			ex.report.Truncated = true
			ex.inconclusive("deadline reached before exploration finished")
			break
		}
		if ex.cfg.ViolationGrace > 0 && !ex.firstNewViolation.IsZero() && time.Since(ex.firstNewViolation) > ex.cfg.ViolationGrace {
			ex.report.Truncated = true
			ex.report.StoppedAfterViolation = true
			break
		}
		if ex.inSync && ex.tpos < ex.syncLen {
			// the path ended before reaching the changed decision: replay diverged
			ex.inconclusive("engine: path ended inside the replayed prefix (nondeterministic replay)")
			ex.report.Truncated = true
			break
		}
		if len(ex.cfg.ForceChoices) > 0 || !ex.backtrack() {
			break
		}
	}
	ex.report.Queries = ex.solver.Stats
	ex.report.WallS = time.Since(t0).Seconds()
	return ex.report
}

func (ex *Exec) runOnePath(fn *ssa.Function, args []int64) {
	defer func() {
		// make sure all goroutines of this path are gone
		ex.rt.killAll()
	}()
	defer func() {
		r := recover()
		if r == nil {
			return
		}
		if _, isEnd := r.(pathEnd); !isEnd || r.(pathEnd).reason != "infeasible" {
			ex.flushAtEnd()
		}
		switch p := r.(type) {
		case pathEnd:
			switch p.reason {
			case "infeasible":
				ex.report.Infeasible++
			case "unwind":
				// recorded where raised
			case "deadline":
				ex.report.Truncated = true
			}
		case targetPanic:
			ex.unexpectedPanic(p)
		case unsupported:
			ex.inconclusive("engine: " + p.Error())
		case engineBug:
			ex.inconclusive("engine bug: " + p.msg)
		default:
			panic(r)
		}
	}()
	vals := make([]Value, len(args))
	for i, a := range args {
		pt := fn.Params[i].Type()
		if isBoolType(pt) {
			vals[i] = ex.ctx.Bool(a != 0)
		} else if w, _, ok := isIntType(pt); ok {
			vals[i] = ex.ctx.ConstS(w, a)
		} else {
			unsupp("harness parameter type %v", pt)
		}
	}
	ex.ensureInit(fn.Pkg)
	ex.rt.runMain(func() { ex.call(nil, fn, vals) })
	ex.flushAtEnd()
}

// flushAtEnd decides the queued assertions when a path ends (however it ends).
func (ex *Exec) flushAtEnd() {
	if ex.inSync || len(ex.pending) == 0 {
		return
	}
	defer func() {
		if r := recover(); r != nil {
			if _, ok := r.(pathEnd); ok {
				return
			}
			panic(r)
		}
	}()
	ex.flushAsserts()
}

func (ex *Exec) unexpectedPanic(p targetPanic) {
	defer func() {
		if r := recover(); r != nil {
			if _, ok := r.(pathEnd); ok {
				return
			}
			panic(r)
		}
	}()
	r, m := smt.Sat, ex.model
	if m == nil {
		r, m = ex.checkSat(nil)
	}
	msg := p.msg
	if msg == "" {
		msg = ex.valueString(p.v)
	}
	label := "no-unexpected-panic"
	if r == smt.Sat {
		ex.addViolation(Violation{Label: label, Kind: "panic", Msg: msg, Model: ex.modelEntries(m), Choices: ex.choicesSoFar(), VChoices: append([]int(nil), ex.vchoices...), Extra: ex.notes()})
	} else if r == smt.Unknown {
		ex.inconclusive("unexpected panic on a path of unknown feasibility: " + msg)
	} else {
		ex.report.Infeasible++
	}
}

// goPanic raises a Go runtime panic in the target program.
func (ex *Exec) goPanic(msg string) {
	panic(targetPanic{v: Iface{T: runtimeErrorType, V: msg}, msg: msg})
}

var runtimeErrorType types.Type = types.NewNamed(types.NewTypeName(0, nil, "runtime.Error(symex)", nil), types.Typ[types.String], nil)

func (ex *Exec) noteTerm(k string, t *smt.Term) {
	if ex.pathNoteTerms == nil {
		ex.pathNoteTerms = map[string]*smt.Term{}
	}
	ex.pathNoteTerms[k] = t
}

func (ex *Exec) note(k, v string) {
	if ex.pathNotes == nil {
		ex.pathNotes = map[string]string{}
	}
	ex.pathNotes[k] = v
}

func posStr(prog *ssa.Program, fn *ssa.Function, instr ssa.Instruction) string {
	if instr != nil && instr.Pos().IsValid() {
		p := prog.Fset.Position(instr.Pos())
		return fmt.Sprintf("%s:%d", shortFile(p.Filename), p.Line)
	}
	return fn.String()
}

func shortFile(f string) string {
	if i := strings.Index(f, "/repo/"); i >= 0 {
		return f[i+6:]
	}
	return f
}
