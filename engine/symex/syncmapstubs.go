package symex

import (
	"go/types"

	"verif/engine/smt"
)

// sync.Map: native model of the documented contract (an any -> any map with atomic operations).
// The subject of the checks is juniper's typed wrapper, not sync.Map itself.

type syncMapState struct {
	ents []*mapEntry // K, V are Iface values
}

func (ex *Exec) syncMapOf(fr *frame, p Value) *syncMapState {
	a := p.(*Value)
	if a == nil {
		ex.goPanic("runtime error: invalid memory address or nil pointer dereference")
	}
	var st *syncMapState
	if s, ok := ex.syncObjs[a]; ok {
		st = s.(*syncMapState)
	} else {
		st = &syncMapState{}
		ex.syncObjs[a] = st
	}
	g := fr.gor()
	ex.rt.visible(g, &pendingOp{kind: opAtomic, obj: st})
	g.pending = nil
	return st
}

var anyType = types.NewInterfaceType(nil, nil)

func (ex *Exec) ifaceEq(a, b Value) bool {
	return ex.branch(ex.equals(anyType, a, b))
}

func (st *syncMapState) find(ex *Exec, k Value) int {
	for i, e := range st.ents {
		if ex.ifaceEq(e.K, k) {
			return i
		}
	}
	return -1
}

func init() {
	reg := func(name string, f extFn) { externals[name] = f }
	nilAny := Iface{}
	reg("(*sync.Map).Load", func(fr *frame, args []Value) Value {
		ex := fr.ex
		st := ex.syncMapOf(fr, args[0])
		if i := st.find(ex, args[1]); i >= 0 {
			return Tuple{st.ents[i].V, ex.ctx.True}
		}
		return Tuple{nilAny, ex.ctx.False}
	})
	reg("(*sync.Map).Store", func(fr *frame, args []Value) Value {
		ex := fr.ex
		st := ex.syncMapOf(fr, args[0])
		if i := st.find(ex, args[1]); i >= 0 {
			st.ents[i].V = args[2]
		} else {
			st.ents = append(st.ents, &mapEntry{K: args[1], V: args[2]})
		}
		return nil
	})
	reg("(*sync.Map).LoadOrStore", func(fr *frame, args []Value) Value {
		ex := fr.ex
		st := ex.syncMapOf(fr, args[0])
		if i := st.find(ex, args[1]); i >= 0 {
			return Tuple{st.ents[i].V, ex.ctx.True}
		}
		st.ents = append(st.ents, &mapEntry{K: args[1], V: args[2]})
		return Tuple{args[2], ex.ctx.False}
	})
	del := func(st *syncMapState, i int) {
		st.ents = append(append([]*mapEntry(nil), st.ents[:i]...), st.ents[i+1:]...)
	}
	reg("(*sync.Map).LoadAndDelete", func(fr *frame, args []Value) Value {
		ex := fr.ex
		st := ex.syncMapOf(fr, args[0])
		if i := st.find(ex, args[1]); i >= 0 {
			v := st.ents[i].V
			del(st, i)
			return Tuple{v, ex.ctx.True}
		}
		return Tuple{nilAny, ex.ctx.False}
	})
	reg("(*sync.Map).Delete", func(fr *frame, args []Value) Value {
		ex := fr.ex
		st := ex.syncMapOf(fr, args[0])
		if i := st.find(ex, args[1]); i >= 0 {
			del(st, i)
		}
		return nil
	})
	reg("(*sync.Map).Swap", func(fr *frame, args []Value) Value {
		ex := fr.ex
		st := ex.syncMapOf(fr, args[0])
		if i := st.find(ex, args[1]); i >= 0 {
			old := st.ents[i].V
			st.ents[i].V = args[2]
			return Tuple{old, ex.ctx.True}
		}
		st.ents = append(st.ents, &mapEntry{K: args[1], V: args[2]})
		return Tuple{nilAny, ex.ctx.False}
	})
	reg("(*sync.Map).CompareAndSwap", func(fr *frame, args []Value) Value {
		ex := fr.ex
		st := ex.syncMapOf(fr, args[0])
		if i := st.find(ex, args[1]); i >= 0 && ex.ifaceEq(st.ents[i].V, args[2]) {
			st.ents[i].V = args[3]
			return ex.ctx.True
		}
		return ex.ctx.False
	})
	reg("(*sync.Map).CompareAndDelete", func(fr *frame, args []Value) Value {
		ex := fr.ex
		st := ex.syncMapOf(fr, args[0])
		if i := st.find(ex, args[1]); i >= 0 && ex.ifaceEq(st.ents[i].V, args[2]) {
			del(st, i)
			return ex.ctx.True
		}
		return ex.ctx.False
	})
	reg("(*sync.Map).Range", func(fr *frame, args []Value) Value {
		ex := fr.ex
		st := ex.syncMapOf(fr, args[0])
		snap := append([]*mapEntry(nil), st.ents...)
		for _, e := range snap {
			r := ex.callValue(fr, args[1], []Value{e.K, e.V}).(*smt.Term)
			if !ex.branch(r) {
				break
			}
		}
		return nil
	})
}
