// Package symex is a path-based symbolic executor for Go SSA (golang.org/x/tools/go/ssa).
//
// Scalars (bool and all integer kinds) are SMT terms; pointers, slices' backing arrays, maps,
// channels, closures and interface dynamic types are concrete. Paths are explored by
// re-execution from the start along a recorded decision trace (stateless DFS), with one
// long-lived incremental solver whose push/pop stack mirrors the decision trace.
package symex

import (
	"fmt"
	"go/types"
	"strings"

	"golang.org/x/tools/go/ssa"

	"verif/engine/smt"
)

// Value is a boxed interpreter value. Dynamic types:
//
//	*smt.Term      bool and integer kinds
//	string         (always concrete)
//	Float          float32/float64 (concrete or opaque)
//	*Value         pointer to a cell
//	ElemPtr        pointer to slice/array element at a symbolic index
//	Struct, Array  aggregates (copied on load/store)
//	Slice          slice header over shared cells
//	*MapV, *Chan   reference types
//	Iface          interface value (T == nil: nil interface)
//	*ssa.Function, *Closure, *ssa.Builtin   function values
//	Tuple          multiple results
//	*mapIter       range iterators
type Value interface{}

type Tuple []Value
type Struct []Value
type Array []Value

// Slice is a slice header: Go's own slice over the shared cell storage gives aliasing for free.
// A nil slice is Slice{nil, true}.
type Slice struct {
	A   []Value
	Nil bool
}

type Iface struct {
	T types.Type
	V Value
}

type Closure struct {
	Fn  *ssa.Function
	Env []Value
}

// Float is a float64/float32: concrete, or an opaque token (Sym != nil) carrying an optional
// integer payload (for math.Floor results).
type Float struct {
	V   float64
	Sym *FloatSym
}

type FloatSym struct {
	ID      int
	IsInt   bool      // value is integer-valued or ±Inf/NaN
	Int     *smt.Term // payload when finite (64-bit signed)
	IsInf   *smt.Term // Bool
	IsNaN   *smt.Term // Bool
	Comment string
}

// ElemPtr addresses element Idx (symbolic) of the window S, then follows Path (struct fields).
type ElemPtr struct {
	S    []Value
	Idx  *smt.Term
	Path []int
}

type mapEntry struct {
	K, V Value
}

type MapV struct {
	KeyT    types.Type
	ElemT   types.Type
	Entries []*mapEntry
}

type unsupported struct{ msg string }

func (u unsupported) Error() string { return "unsupported: " + u.msg }

func unsupp(format string, args ...interface{}) {
	panic(unsupported{fmt.Sprintf(format, args...)})
}

// ---- type helpers

func under(t types.Type) types.Type { return t.Underlying() }

func deref(t types.Type) types.Type {
	if p, ok := t.Underlying().(*types.Pointer); ok {
		return p.Elem()
	}
	panic("deref: not a pointer: " + t.String())
}

func intWidth(b *types.Basic) (w int, signed bool, ok bool) {
	switch b.Kind() {
	case types.Int, types.Int64, types.UntypedInt, types.UntypedRune:
		return 64, true, true
	case types.Int8:
		return 8, true, true
	case types.Int16:
		return 16, true, true
	case types.Int32:
		return 32, true, true
	case types.Uint, types.Uint64, types.Uintptr:
		return 64, false, true
	case types.Uint8:
		return 8, false, true
	case types.Uint16:
		return 16, false, true
	case types.Uint32:
		return 32, false, true
	}
	return 0, false, false
}

func isIntType(t types.Type) (w int, signed bool, ok bool) {
	if b, isB := t.Underlying().(*types.Basic); isB {
		return intWidth(b)
	}
	return 0, false, false
}

func isBoolType(t types.Type) bool {
	b, ok := t.Underlying().(*types.Basic)
	return ok && b.Info()&types.IsBoolean != 0
}

func isFloatType(t types.Type) bool {
	b, ok := t.Underlying().(*types.Basic)
	return ok && b.Info()&types.IsFloat != 0
}

func isStringType(t types.Type) bool {
	b, ok := t.Underlying().(*types.Basic)
	return ok && b.Info()&types.IsString != 0
}

// scalarOnly reports whether values of t consist only of SMT-mergeable scalars.
func scalarOnly(t types.Type) bool {
	switch u := t.Underlying().(type) {
	case *types.Basic:
		if _, _, ok := intWidth(u); ok {
			return true
		}
		return u.Info()&types.IsBoolean != 0
	case *types.Struct:
		for i := 0; i < u.NumFields(); i++ {
			if !scalarOnly(u.Field(i).Type()) {
				return false
			}
		}
		return true
	case *types.Array:
		return scalarOnly(u.Elem())
	}
	return false
}

// zero returns the zero value of t.
func (ex *Exec) zero(t types.Type) Value {
	switch u := t.Underlying().(type) {
	case *types.Basic:
		if u.Kind() == types.UntypedNil {
			panic("untyped nil has no zero value")
		}
		if w, _, ok := intWidth(u); ok {
			return ex.ctx.Const(w, 0)
		}
		switch {
		case u.Info()&types.IsBoolean != 0:
			return ex.ctx.False
		case u.Info()&types.IsString != 0:
			return ""
		case u.Info()&types.IsFloat != 0:
			return Float{}
		case u.Kind() == types.UnsafePointer:
			return (*Value)(nil)
		}
		unsupp("zero of basic %v", t)
	case *types.Pointer:
		return (*Value)(nil)
	case *types.Array:
		a := make(Array, u.Len())
		for i := range a {
			a[i] = ex.zero(u.Elem())
		}
		return a
	case *types.Struct:
		s := make(Struct, u.NumFields())
		for i := range s {
			s[i] = ex.zero(u.Field(i).Type())
		}
		return s
	case *types.Slice:
		return Slice{nil, true}
	case *types.Map:
		return (*MapV)(nil)
	case *types.Chan:
		return (*Chan)(nil)
	case *types.Interface:
		return Iface{}
	case *types.Signature:
		return (*ssa.Function)(nil)
	case *types.Tuple:
		if u.Len() == 1 {
			return ex.zero(u.At(0).Type())
		}
		tup := make(Tuple, u.Len())
		for i := range tup {
			tup[i] = ex.zero(u.At(i).Type())
		}
		return tup
	}
	unsupp("zero of %v", t)
	return nil
}

// copyVal returns a copy of v with aggregate storage unshared.
func copyVal(v Value) Value {
	switch v := v.(type) {
	case Struct:
		c := make(Struct, len(v))
		for i, f := range v {
			c[i] = copyVal(f)
		}
		return c
	case Array:
		c := make(Array, len(v))
		for i, f := range v {
			c[i] = copyVal(f)
		}
		return c
	case Tuple:
		c := make(Tuple, len(v))
		for i, f := range v {
			c[i] = copyVal(f)
		}
		return c
	}
	return v
}

// storeInto stores v into the cell *addr in place, so that pointers to fields/elements of an
// aggregate already in the cell stay valid.
func storeInto(addr *Value, v Value) {
	switch v := v.(type) {
	case Struct:
		if lhs, ok := (*addr).(Struct); ok && len(lhs) == len(v) {
			for i := range lhs {
				storeInto(&lhs[i], v[i])
			}
			return
		}
		*addr = copyVal(v)
	case Array:
		if lhs, ok := (*addr).(Array); ok && len(lhs) == len(v) {
			for i := range lhs {
				storeInto(&lhs[i], v[i])
			}
			return
		}
		*addr = copyVal(v)
	default:
		*addr = v
	}
}

func isNilValue(v Value) bool {
	switch v := v.(type) {
	case *Value:
		return v == nil
	case Slice:
		return v.Nil
	case *MapV:
		return v == nil
	case *Chan:
		return v == nil
	case Iface:
		return v.T == nil
	case *ssa.Function:
		return v == nil
	case *Closure:
		return v == nil
	case *nativeFunc:
		return v == nil
	case nil:
		return true
	}
	return false
}

// equals returns the Bool term "x == y" for values of static type t.
func (ex *Exec) equals(t types.Type, x, y Value) *smt.Term {
	c := ex.ctx
	switch x := x.(type) {
	case *smt.Term:
		return c.Eq(x, y.(*smt.Term))
	case string:
		return c.Bool(x == y.(string))
	case Float:
		yf := y.(Float)
		if x.Sym == nil && yf.Sym == nil {
			return c.Bool(x.V == yf.V)
		}
		return ex.freshBool("feq")
	case *Value:
		yp, ok := y.(*Value)
		if !ok {
			return c.False // ElemPtr vs cell pointer
		}
		return c.Bool(x == yp)
	case ElemPtr:
		unsupp("comparison of symbolic element pointers")
	case Struct:
		ys := y.(Struct)
		st := t.Underlying().(*types.Struct)
		r := c.True
		for i := range x {
			if st.Field(i).Name() == "_" {
				continue
			}
			r = c.And(r, ex.equals(st.Field(i).Type(), x[i], ys[i]))
		}
		return r
	case Array:
		ya := y.(Array)
		et := t.Underlying().(*types.Array).Elem()
		r := c.True
		for i := range x {
			r = c.And(r, ex.equals(et, x[i], ya[i]))
		}
		return r
	case Iface:
		yi := y.(Iface)
		if x.T == nil || yi.T == nil {
			return c.Bool(x.T == nil && yi.T == nil)
		}
		if !types.Identical(x.T, yi.T) {
			return c.False
		}
		if !types.Comparable(x.T) {
			ex.goPanic("runtime error: comparing uncomparable type " + x.T.String())
		}
		return ex.equals(x.T, x.V, yi.V)
	case *MapV:
		return c.Bool(x == y.(*MapV))
	case *Chan:
		return c.Bool(x == y.(*Chan))
	case Slice:
		// only comparison to nil is legal
		ys := y.(Slice)
		if ys.Nil && ys.A == nil {
			return c.Bool(x.Nil)
		}
		return c.Bool(ys.Nil == x.Nil)
	case *ssa.Function:
		return c.Bool(isNilValue(x) == isNilValue(y))
	case *Closure:
		return c.Bool(isNilValue(x) == isNilValue(y))
	case *nativeFunc:
		return c.Bool((x == nil) == isNilValue(y))
	}
	unsupp("equals on %T", x)
	return nil
}

// iteValue merges two values of the same shape under cond; ok=false if they are not mergeable.
func (ex *Exec) iteValue(cond *smt.Term, a, b Value) (Value, bool) {
	switch a := a.(type) {
	case *smt.Term:
		bt, ok := b.(*smt.Term)
		if !ok || bt.Sort != a.Sort {
			return nil, false
		}
		return ex.ctx.Ite(cond, a, bt), true
	case Struct:
		bs, ok := b.(Struct)
		if !ok || len(bs) != len(a) {
			return nil, false
		}
		r := make(Struct, len(a))
		for i := range a {
			v, ok := ex.iteValue(cond, a[i], bs[i])
			if !ok {
				return nil, false
			}
			r[i] = v
		}
		return r, true
	case Array:
		bs, ok := b.(Array)
		if !ok || len(bs) != len(a) {
			return nil, false
		}
		r := make(Array, len(a))
		for i := range a {
			v, ok := ex.iteValue(cond, a[i], bs[i])
			if !ok {
				return nil, false
			}
			r[i] = v
		}
		return r, true
	case *Value:
		if bp, ok := b.(*Value); ok && bp == a {
			return a, true
		}
	case string:
		if bs, ok := b.(string); ok && bs == a {
			return a, true
		}
	case Iface:
		if bi, ok := b.(Iface); ok && bi.T == nil && a.T == nil {
			return a, true
		}
	}
	return nil, false
}

func (ex *Exec) valueString(v Value) string {
	switch v := v.(type) {
	case *smt.Term:
		return v.String()
	case string:
		return fmt.Sprintf("%q", v)
	case Struct:
		var parts []string
		for _, f := range v {
			parts = append(parts, ex.valueString(f))
		}
		return "{" + strings.Join(parts, " ") + "}"
	case Iface:
		if v.T == nil {
			return "<nil>"
		}
		return "(" + v.T.String() + ")" + ex.valueString(v.V)
	case *Value:
		if v == nil {
			return "nil"
		}
		return fmt.Sprintf("&%p", v)
	}
	return fmt.Sprintf("%T", v)
}
