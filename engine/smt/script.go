package smt

import (
	"fmt"
	"os/exec"
	"strconv"
	"strings"
	"time"
)

// Script renders a standalone SMT-LIB2 problem (declarations, shared sub-terms as define-fun,
// one assert per term, check-sat, get-value of vars).
func Script(asserts []*Term, vars []*Term) string {
	var sb strings.Builder
	sb.WriteString("(set-logic QF_BV)\n")
	seen := map[*Term]bool{}
	var emit func(t *Term)
	name := func(t *Term) string {
		switch t.Op {
		case OpConst:
			return constStr(t)
		case OpVar:
			return "|" + t.Name + "|"
		}
		return "t" + strconv.Itoa(t.ID)
	}
	emit = func(t *Term) {
		if t.Op == OpConst || seen[t] {
			return
		}
		seen[t] = true
		for _, a := range t.Args {
			emit(a)
		}
		if t.Op == OpVar {
			sb.WriteString("(declare-const |" + t.Name + "| " + t.Sort.String() + ")\n")
			return
		}
		sb.WriteString("(define-fun t" + strconv.Itoa(t.ID) + " () " + t.Sort.String() + " (")
		switch t.Op {
		case OpZExt, OpSExt:
			fmt.Fprintf(&sb, "(_ %s %d)", opNames[t.Op], t.P1)
		case OpExtract:
			fmt.Fprintf(&sb, "(_ extract %d %d)", t.P1, t.P2)
		default:
			sb.WriteString(opNames[t.Op])
		}
		for _, a := range t.Args {
			sb.WriteByte(' ')
			sb.WriteString(name(a))
		}
		sb.WriteString("))\n")
	}
	for _, v := range vars {
		emit(v)
	}
	for _, a := range asserts {
		emit(a)
		sb.WriteString("(assert " + name(a) + ")\n")
	}
	sb.WriteString("(check-sat)\n")
	if len(vars) > 0 {
		sb.WriteString("(get-value (")
		for i, v := range vars {
			if i > 0 {
				sb.WriteByte(' ')
			}
			sb.WriteString(name(v))
		}
		sb.WriteString("))\n")
	}
	return sb.String()
}

// SolveWithCvc5AsInt decides the script with cvc5's integer encoding of bit-vectors (keeps the
// mod-2^k semantics; decides linear 64-bit arithmetic that bit-blasting does not finish).
func SolveWithCvc5AsInt(script string, timeoutMs int) (Result, map[string]uint64, time.Duration) {
	t0 := time.Now()
	cmd := exec.Command("cvc5", "--lang=smt2", "--produce-models", "--solve-bv-as-int=sum", "--tlimit="+strconv.Itoa(timeoutMs))
	cmd.Stdin = strings.NewReader(script)
	out, _ := cmd.CombinedOutput()
	d := time.Since(t0)
	txt := string(out)
	lines := strings.Split(txt, "\n")
	if len(lines) == 0 {
		return Unknown, nil, d
	}
	switch strings.TrimSpace(lines[0]) {
	case "unsat":
		return Unsat, nil, d
	case "sat":
		if strings.Contains(txt, "(error") {
			return Unknown, nil, d
		}
		m := map[string]uint64{}
		toks := tokenize(strings.Join(lines[1:], " "))
		i := 0
		for i < len(toks) {
			if toks[i] == "(" && i+1 < len(toks) && toks[i+1] != "(" {
				nm := strings.Trim(toks[i+1], "|")
				if i+2 < len(toks) {
					v, n, ok := parseVal(toks[i+2:])
					if ok {
						m[nm] = v
						i += 2 + n
						continue
					}
				}
			}
			i++
		}
		return Sat, m, d
	}
	return Unknown, nil, d
}
