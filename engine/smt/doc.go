package smt
