// Package smt is a small hash-consed term layer (Bool + fixed-width bit-vectors up to 64 bits)
// with constant folding, an evaluator, and an SMT-LIB2 pipe to an external solver.
package smt

import (
	"fmt"
	"strconv"
	"strings"
)

type Kind uint8

const (
	KBool Kind = iota
	KBV
)

type Sort struct {
	K Kind
	W int
}

var BoolSort = Sort{KBool, 0}

func BV(w int) Sort { return Sort{KBV, w} }

func (s Sort) String() string {
	if s.K == KBool {
		return "Bool"
	}
	return fmt.Sprintf("(_ BitVec %d)", s.W)
}

type Op uint8

const (
	OpConst Op = iota
	OpVar
	OpNot
	OpAnd
	OpOr
	OpIte
	OpEq
	OpAdd
	OpSub
	OpMul
	OpUDiv
	OpURem
	OpSDiv
	OpSRem
	OpBAnd
	OpBOr
	OpBXor
	OpShl
	OpLShr
	OpAShr
	OpNeg
	OpBNot
	OpULt
	OpULe
	OpSLt
	OpSLe
	OpZExt
	OpSExt
	OpExtract
)

var opNames = [...]string{
	OpConst: "const", OpVar: "var", OpNot: "not", OpAnd: "and", OpOr: "or", OpIte: "ite", OpEq: "=",
	OpAdd: "bvadd", OpSub: "bvsub", OpMul: "bvmul", OpUDiv: "bvudiv", OpURem: "bvurem", OpSDiv: "bvsdiv", OpSRem: "bvsrem",
	OpBAnd: "bvand", OpBOr: "bvor", OpBXor: "bvxor", OpShl: "bvshl", OpLShr: "bvlshr", OpAShr: "bvashr", OpNeg: "bvneg", OpBNot: "bvnot",
	OpULt: "bvult", OpULe: "bvule", OpSLt: "bvslt", OpSLe: "bvsle", OpZExt: "zero_extend", OpSExt: "sign_extend", OpExtract: "extract",
}

type Term struct {
	Op   Op
	Sort Sort
	Args []*Term
	Val  uint64 // OpConst: value (Bool: 0/1)
	Name string // OpVar
	P1   int    // ZExt/SExt: extra bits; Extract: hi
	P2   int    // Extract: lo
	ID   int
}

func (t *Term) IsConst() bool { return t.Op == OpConst }
func (t *Term) IsBool() bool  { return t.Sort.K == KBool }

// Ctx owns the hash-consing table. Not safe for concurrent use.
type Ctx struct {
	tab    map[string]*Term
	nextID int
	True   *Term
	False  *Term
}

func NewCtx() *Ctx {
	c := &Ctx{tab: map[string]*Term{}}
	c.True = c.mk(&Term{Op: OpConst, Sort: BoolSort, Val: 1})
	c.False = c.mk(&Term{Op: OpConst, Sort: BoolSort, Val: 0})
	return c
}

func (c *Ctx) NumTerms() int { return c.nextID }

func (c *Ctx) mk(t *Term) *Term {
	var sb strings.Builder
	sb.WriteByte(byte(t.Op) + 'A')
	sb.WriteByte(byte(t.Sort.K) + '0')
	sb.WriteString(strconv.Itoa(t.Sort.W))
	switch t.Op {
	case OpConst:
		sb.WriteByte(':')
		sb.WriteString(strconv.FormatUint(t.Val, 16))
	case OpVar:
		sb.WriteByte(':')
		sb.WriteString(t.Name)
	default:
		if t.P1 != 0 || t.P2 != 0 {
			sb.WriteByte(':')
			sb.WriteString(strconv.Itoa(t.P1))
			sb.WriteByte(',')
			sb.WriteString(strconv.Itoa(t.P2))
		}
		for _, a := range t.Args {
			sb.WriteByte(' ')
			sb.WriteString(strconv.Itoa(a.ID))
		}
	}
	k := sb.String()
	if e, ok := c.tab[k]; ok {
		return e
	}
	t.ID = c.nextID
	c.nextID++
	c.tab[k] = t
	return t
}

func mask(w int) uint64 {
	if w >= 64 {
		return ^uint64(0)
	}
	return (uint64(1) << uint(w)) - 1
}

func sx(v uint64, w int) int64 {
	if w >= 64 {
		return int64(v)
	}
	sh := uint(64 - w)
	return int64(v<<sh) >> sh
}

func (c *Ctx) Bool(b bool) *Term {
	if b {
		return c.True
	}
	return c.False
}

func (c *Ctx) Const(w int, v uint64) *Term {
	return c.mk(&Term{Op: OpConst, Sort: BV(w), Val: v & mask(w)})
}

func (c *Ctx) ConstS(w int, v int64) *Term { return c.Const(w, uint64(v)) }

func (c *Ctx) Var(name string, s Sort) *Term {
	return c.mk(&Term{Op: OpVar, Sort: s, Name: name})
}

func (c *Ctx) Not(a *Term) *Term {
	if a.Op == OpConst {
		return c.Bool(a.Val == 0)
	}
	if a.Op == OpNot {
		return a.Args[0]
	}
	return c.mk(&Term{Op: OpNot, Sort: BoolSort, Args: []*Term{a}})
}

func (c *Ctx) And(a, b *Term) *Term {
	if a.Op == OpConst {
		if a.Val == 0 {
			return c.False
		}
		return b
	}
	if b.Op == OpConst {
		if b.Val == 0 {
			return c.False
		}
		return a
	}
	if a == b {
		return a
	}
	if a.ID > b.ID {
		a, b = b, a
	}
	return c.mk(&Term{Op: OpAnd, Sort: BoolSort, Args: []*Term{a, b}})
}

func (c *Ctx) Or(a, b *Term) *Term {
	if a.Op == OpConst {
		if a.Val != 0 {
			return c.True
		}
		return b
	}
	if b.Op == OpConst {
		if b.Val != 0 {
			return c.True
		}
		return a
	}
	if a == b {
		return a
	}
	if a.ID > b.ID {
		a, b = b, a
	}
	return c.mk(&Term{Op: OpOr, Sort: BoolSort, Args: []*Term{a, b}})
}

func (c *Ctx) Implies(a, b *Term) *Term { return c.Or(c.Not(a), b) }

func (c *Ctx) Ite(cond, a, b *Term) *Term {
	if cond.Op == OpConst {
		if cond.Val != 0 {
			return a
		}
		return b
	}
	if a == b {
		return a
	}
	if a.Sort != b.Sort {
		panic(fmt.Sprintf("smt.Ite: sort mismatch %v vs %v", a.Sort, b.Sort))
	}
	if a.Sort.K == KBool {
		if a.Op == OpConst && b.Op == OpConst {
			if a.Val != 0 {
				return cond
			}
			return c.Not(cond)
		}
		if a.Op == OpConst {
			if a.Val != 0 {
				return c.Or(cond, b)
			}
			return c.And(c.Not(cond), b)
		}
		if b.Op == OpConst {
			if b.Val != 0 {
				return c.Or(c.Not(cond), a)
			}
			return c.And(cond, a)
		}
	}
	if cond.Op == OpNot {
		return c.Ite(cond.Args[0], b, a)
	}
	return c.mk(&Term{Op: OpIte, Sort: a.Sort, Args: []*Term{cond, a, b}})
}

func (c *Ctx) Eq(a, b *Term) *Term {
	if a == b {
		return c.True
	}
	if a.Sort != b.Sort {
		panic(fmt.Sprintf("smt.Eq: sort mismatch %v vs %v", a.Sort, b.Sort))
	}
	if a.Op == OpConst && b.Op == OpConst {
		return c.Bool(a.Val == b.Val)
	}
	if a.Sort.K == KBool {
		if a.Op == OpConst {
			if a.Val != 0 {
				return b
			}
			return c.Not(b)
		}
		if b.Op == OpConst {
			if b.Val != 0 {
				return a
			}
			return c.Not(a)
		}
	}
	if a.ID > b.ID {
		a, b = b, a
	}
	return c.mk(&Term{Op: OpEq, Sort: BoolSort, Args: []*Term{a, b}})
}

func foldBin(op Op, w int, x, y uint64) uint64 {
	m := mask(w)
	switch op {
	case OpAdd:
		return (x + y) & m
	case OpSub:
		return (x - y) & m
	case OpMul:
		return (x * y) & m
	case OpUDiv:
		if y == 0 {
			return m
		}
		return (x / y) & m
	case OpURem:
		if y == 0 {
			return x
		}
		return (x % y) & m
	case OpSDiv:
		sxv, syv := sx(x, w), sx(y, w)
		if syv == 0 {
			if sxv >= 0 {
				return m
			}
			return 1
		}
		if syv == -1 {
			return uint64(-sxv) & m
		}
		return uint64(sxv/syv) & m
	case OpSRem:
		sxv, syv := sx(x, w), sx(y, w)
		if syv == 0 {
			return x
		}
		if syv == -1 {
			return 0
		}
		return uint64(sxv%syv) & m
	case OpBAnd:
		return x & y
	case OpBOr:
		return x | y
	case OpBXor:
		return x ^ y
	case OpShl:
		if y >= uint64(w) {
			return 0
		}
		return (x << y) & m
	case OpLShr:
		if y >= uint64(w) {
			return 0
		}
		return (x >> y) & m
	case OpAShr:
		s := sx(x, w)
		if y >= uint64(w) {
			if s < 0 {
				return m
			}
			return 0
		}
		return uint64(s>>y) & m
	}
	panic("foldBin")
}

func foldCmp(op Op, w int, x, y uint64) bool {
	switch op {
	case OpULt:
		return x < y
	case OpULe:
		return x <= y
	case OpSLt:
		return sx(x, w) < sx(y, w)
	case OpSLe:
		return sx(x, w) <= sx(y, w)
	}
	panic("foldCmp")
}

// Bin builds a bit-vector binary operation.
func (c *Ctx) Bin(op Op, a, b *Term) *Term {
	if a.Sort != b.Sort || a.Sort.K != KBV {
		panic(fmt.Sprintf("smt.Bin %s: sorts %v %v", opNames[op], a.Sort, b.Sort))
	}
	w := a.Sort.W
	if a.Op == OpConst && b.Op == OpConst {
		return c.Const(w, foldBin(op, w, a.Val, b.Val))
	}
	switch op {
	case OpAdd:
		if a.Op == OpConst && a.Val == 0 {
			return b
		}
		if b.Op == OpConst && b.Val == 0 {
			return a
		}
		// (x + c1) + c2
		if b.Op == OpConst && a.Op == OpAdd && a.Args[1].Op == OpConst {
			return c.Bin(OpAdd, a.Args[0], c.Const(w, a.Args[1].Val+b.Val))
		}
		if a.Op == OpConst {
			a, b = b, a
		}
	case OpSub:
		if b.Op == OpConst && b.Val == 0 {
			return a
		}
		if a == b {
			return c.Const(w, 0)
		}
		if b.Op == OpConst {
			return c.Bin(OpAdd, a, c.Const(w, -b.Val))
		}
	case OpMul:
		if a.Op == OpConst {
			a, b = b, a
		}
		if b.Op == OpConst {
			if b.Val == 0 {
				return b
			}
			if b.Val == 1 {
				return a
			}
		}
	case OpBAnd:
		if a == b {
			return a
		}
		if a.Op == OpConst {
			a, b = b, a
		}
		if b.Op == OpConst {
			if b.Val == 0 {
				return b
			}
			if b.Val == mask(w) {
				return a
			}
		}
	case OpBOr:
		if a == b {
			return a
		}
		if a.Op == OpConst {
			a, b = b, a
		}
		if b.Op == OpConst {
			if b.Val == 0 {
				return a
			}
			if b.Val == mask(w) {
				return b
			}
		}
	case OpBXor:
		if a == b {
			return c.Const(w, 0)
		}
		if a.Op == OpConst {
			a, b = b, a
		}
		if b.Op == OpConst && b.Val == 0 {
			return a
		}
	case OpShl, OpLShr, OpAShr:
		if b.Op == OpConst && b.Val == 0 {
			return a
		}
	}
	return c.mk(&Term{Op: op, Sort: a.Sort, Args: []*Term{a, b}})
}

func (c *Ctx) Cmp(op Op, a, b *Term) *Term {
	if a.Sort != b.Sort || a.Sort.K != KBV {
		panic(fmt.Sprintf("smt.Cmp %s: sorts %v %v", opNames[op], a.Sort, b.Sort))
	}
	if a.Op == OpConst && b.Op == OpConst {
		return c.Bool(foldCmp(op, a.Sort.W, a.Val, b.Val))
	}
	if a == b {
		return c.Bool(op == OpULe || op == OpSLe)
	}
	return c.mk(&Term{Op: op, Sort: BoolSort, Args: []*Term{a, b}})
}

func (c *Ctx) Neg(a *Term) *Term {
	if a.Op == OpConst {
		return c.Const(a.Sort.W, -a.Val)
	}
	return c.mk(&Term{Op: OpNeg, Sort: a.Sort, Args: []*Term{a}})
}

func (c *Ctx) BNot(a *Term) *Term {
	if a.Op == OpConst {
		return c.Const(a.Sort.W, ^a.Val)
	}
	return c.mk(&Term{Op: OpBNot, Sort: a.Sort, Args: []*Term{a}})
}

func (c *Ctx) ZExt(a *Term, to int) *Term {
	w := a.Sort.W
	if to == w {
		return a
	}
	if to < w {
		return c.Extract(a, to-1, 0)
	}
	if a.Op == OpConst {
		return c.Const(to, a.Val)
	}
	return c.mk(&Term{Op: OpZExt, Sort: BV(to), Args: []*Term{a}, P1: to - w})
}

func (c *Ctx) SExt(a *Term, to int) *Term {
	w := a.Sort.W
	if to == w {
		return a
	}
	if to < w {
		return c.Extract(a, to-1, 0)
	}
	if a.Op == OpConst {
		return c.Const(to, uint64(sx(a.Val, w)))
	}
	return c.mk(&Term{Op: OpSExt, Sort: BV(to), Args: []*Term{a}, P1: to - w})
}

func (c *Ctx) Extract(a *Term, hi, lo int) *Term {
	if lo == 0 && hi == a.Sort.W-1 {
		return a
	}
	if a.Op == OpConst {
		return c.Const(hi-lo+1, a.Val>>uint(lo))
	}
	if (a.Op == OpZExt || a.Op == OpSExt) && lo == 0 && hi < a.Args[0].Sort.W {
		return c.Extract(a.Args[0], hi, 0)
	}
	return c.mk(&Term{Op: OpExtract, Sort: BV(hi - lo + 1), Args: []*Term{a}, P1: hi, P2: lo})
}

// SVal returns the signed value of a constant.
func (t *Term) SVal() int64 { return sx(t.Val, t.Sort.W) }

// Eval evaluates t under model (variable name -> value); variables missing from the model read as 0.
func Eval(t *Term, model map[string]uint64, memo map[*Term]uint64) uint64 {
	if t.Op == OpConst {
		return t.Val
	}
	if v, ok := memo[t]; ok {
		return v
	}
	var r uint64
	switch t.Op {
	case OpVar:
		r = model[t.Name]
		if t.Sort.K == KBV {
			r &= mask(t.Sort.W)
		} else if r != 0 {
			r = 1
		}
	case OpNot:
		r = 1 - Eval(t.Args[0], model, memo)
	case OpAnd:
		r = Eval(t.Args[0], model, memo) & Eval(t.Args[1], model, memo)
	case OpOr:
		r = Eval(t.Args[0], model, memo) | Eval(t.Args[1], model, memo)
	case OpIte:
		if Eval(t.Args[0], model, memo) != 0 {
			r = Eval(t.Args[1], model, memo)
		} else {
			r = Eval(t.Args[2], model, memo)
		}
	case OpEq:
		if Eval(t.Args[0], model, memo) == Eval(t.Args[1], model, memo) {
			r = 1
		}
	case OpAdd, OpSub, OpMul, OpUDiv, OpURem, OpSDiv, OpSRem, OpBAnd, OpBOr, OpBXor, OpShl, OpLShr, OpAShr:
		r = foldBin(t.Op, t.Sort.W, Eval(t.Args[0], model, memo), Eval(t.Args[1], model, memo))
	case OpULt, OpULe, OpSLt, OpSLe:
		if foldCmp(t.Op, t.Args[0].Sort.W, Eval(t.Args[0], model, memo), Eval(t.Args[1], model, memo)) {
			r = 1
		}
	case OpNeg:
		r = (-Eval(t.Args[0], model, memo)) & mask(t.Sort.W)
	case OpBNot:
		r = (^Eval(t.Args[0], model, memo)) & mask(t.Sort.W)
	case OpZExt:
		r = Eval(t.Args[0], model, memo)
	case OpSExt:
		r = uint64(sx(Eval(t.Args[0], model, memo), t.Args[0].Sort.W)) & mask(t.Sort.W)
	case OpExtract:
		r = (Eval(t.Args[0], model, memo) >> uint(t.P2)) & mask(t.P1-t.P2+1)
	default:
		panic("Eval: op")
	}
	memo[t] = r
	return r
}

// Vars collects the variables of t into set.
func Vars(t *Term, seen map[*Term]bool, out *[]*Term) {
	if seen[t] {
		return
	}
	seen[t] = true
	if t.Op == OpVar {
		*out = append(*out, t)
		return
	}
	for _, a := range t.Args {
		Vars(a, seen, out)
	}
}

func (t *Term) String() string {
	switch t.Op {
	case OpConst:
		if t.Sort.K == KBool {
			if t.Val != 0 {
				return "true"
			}
			return "false"
		}
		return strconv.FormatInt(t.SVal(), 10)
	case OpVar:
		return t.Name
	}
	var sb strings.Builder
	sb.WriteByte('(')
	sb.WriteString(opNames[t.Op])
	for _, a := range t.Args {
		sb.WriteByte(' ')
		if sb.Len() > 400 {
			sb.WriteString("...")
			break
		}
		sb.WriteString(a.String())
	}
	sb.WriteByte(')')
	return sb.String()
}
