package smt

import (
	"bufio"
	"fmt"
	"io"
	"os"
	"os/exec"
	"strconv"
	"strings"
	"time"
)

type Result int

const (
	Unsat Result = iota
	Sat
	Unknown
)

func (r Result) String() string { return [...]string{"unsat", "sat", "unknown"}[r] }

type Stats struct {
	Sat, Unsat, Unknown int
	Errors              int
	Time                time.Duration
	MaxQuery            time.Duration
	Fallbacks           int
	Cvc5                int
	CacheHits           int
	BadModels           int
}

// Solver drives one long-lived SMT-LIB2 solver process over a pipe.
type Solver struct {
	Name  string
	cmd   *exec.Cmd
	in    io.WriteCloser
	out   *bufio.Reader
	buf   strings.Builder
	level int
	// defined[t] = level at which the name of t was introduced
	defined map[*Term]int
	byLevel [][]*Term
	Stats   Stats
	Log     io.Writer
	seq     int
	dead    bool
	defaultTimeout int
	QuickMs int
	NoTactic bool // leave queries the incremental core cannot decide quickly to the caller (cvc5)
	PreferTactic bool // go straight to the bit-blasting tactic (assertion queries)
	LastErr string
}

// SolverCmd returns the argv for a named back end.
func SolverCmd(name string, timeoutMs int) []string {
	switch name {
	case "z3":
		return []string{"z3", "-in", "-t:" + strconv.Itoa(timeoutMs)}
	case "cvc5":
		return []string{"cvc5", "--incremental", "--lang=smt2", "--produce-models", "--tlimit-per=" + strconv.Itoa(timeoutMs)}
	default:
		return []string{"z3-new", "-in", "-t:" + strconv.Itoa(timeoutMs)}
	}
}

func NewSolver(name string, timeoutMs int) (*Solver, error) {
	argv := SolverCmd(name, timeoutMs)
	cmd := exec.Command(argv[0], argv[1:]...)
	in, err := cmd.StdinPipe()
	if err != nil {
		return nil, err
	}
	outp, err := cmd.StdoutPipe()
	if err != nil {
		return nil, err
	}
	cmd.Stderr = os.Stderr
	if err := cmd.Start(); err != nil {
		return nil, err
	}
	s := &Solver{defaultTimeout: timeoutMs, Name: name, cmd: cmd, in: in, out: bufio.NewReaderSize(outp, 1<<16), defined: map[*Term]int{}, byLevel: [][]*Term{nil}}
	s.raw("(set-option :produce-models true)\n")
	if name == "cvc5" {
		s.raw("(set-logic ALL)\n")
	}
	return s, nil
}

func (s *Solver) Close() {
	if s.cmd != nil {
		s.in.Close()
		s.cmd.Process.Kill()
		s.cmd.Wait()
		s.cmd = nil
	}
}

func (s *Solver) raw(str string) { s.buf.WriteString(str) }

func (s *Solver) flush() {
	if s.buf.Len() == 0 {
		return
	}
	if s.Log != nil {
		io.WriteString(s.Log, s.buf.String())
	}
	if _, err := io.WriteString(s.in, s.buf.String()); err != nil {
		s.dead = true
		s.LastErr = err.Error()
	}
	s.buf.Reset()
}

func (s *Solver) Level() int { return s.level }

func (s *Solver) Push() {
	s.raw("(push 1)\n")
	s.level++
	s.byLevel = append(s.byLevel, nil)
}

func (s *Solver) PopTo(level int) {
	if level >= s.level {
		return
	}
	n := s.level - level
	for l := s.level; l > level; l-- {
		for _, t := range s.byLevel[l] {
			delete(s.defined, t)
		}
	}
	s.byLevel = s.byLevel[:level+1]
	s.level = level
	s.raw("(pop " + strconv.Itoa(n) + ")\n")
}

func constStr(t *Term) string {
	if t.Sort.K == KBool {
		if t.Val != 0 {
			return "true"
		}
		return "false"
	}
	return "(_ bv" + strconv.FormatUint(t.Val, 10) + " " + strconv.Itoa(t.Sort.W) + ")"
}

// ref makes sure t has a name in the solver at the current level and returns how to refer to it.
func (s *Solver) ref(t *Term) string {
	if t.Op == OpConst {
		return constStr(t)
	}
	if _, ok := s.defined[t]; ok {
		return s.nameOf(t)
	}
	// iterative post-order to avoid deep recursion on long chains
	type fr struct {
		t *Term
		i int
	}
	stack := []fr{{t, 0}}
	for len(stack) > 0 {
		top := &stack[len(stack)-1]
		if top.i < len(top.t.Args) {
			a := top.t.Args[top.i]
			top.i++
			if a.Op != OpConst {
				if _, ok := s.defined[a]; !ok {
					stack = append(stack, fr{a, 0})
				}
			}
			continue
		}
		x := top.t
		stack = stack[:len(stack)-1]
		if _, ok := s.defined[x]; ok {
			continue
		}
		s.define(x)
	}
	return s.nameOf(t)
}

func (s *Solver) nameOf(t *Term) string {
	if t.Op == OpVar {
		return "|" + t.Name + "|"
	}
	return "t" + strconv.Itoa(t.ID)
}

func (s *Solver) argRef(t *Term) string {
	if t.Op == OpConst {
		return constStr(t)
	}
	return s.nameOf(t)
}

func (s *Solver) define(t *Term) {
	s.defined[t] = s.level
	s.byLevel[s.level] = append(s.byLevel[s.level], t)
	if t.Op == OpVar {
		s.raw("(declare-const |" + t.Name + "| " + t.Sort.String() + ")\n")
		return
	}
	b := &s.buf
	b.WriteString("(define-fun t")
	b.WriteString(strconv.Itoa(t.ID))
	b.WriteString(" () ")
	b.WriteString(t.Sort.String())
	b.WriteString(" (")
	switch t.Op {
	case OpZExt, OpSExt:
		fmt.Fprintf(b, "(_ %s %d)", opNames[t.Op], t.P1)
	case OpExtract:
		fmt.Fprintf(b, "(_ extract %d %d)", t.P1, t.P2)
	default:
		b.WriteString(opNames[t.Op])
	}
	for _, a := range t.Args {
		b.WriteByte(' ')
		b.WriteString(s.argRef(a))
	}
	b.WriteString("))\n")
}

func (s *Solver) Assert(t *Term) {
	r := s.ref(t)
	s.raw("(assert " + r + ")\n")
}

// readUntil reads lines until the marker echo; returns the lines before it.
func (s *Solver) readUntil(marker string) []string {
	var lines []string
	for {
		line, err := s.out.ReadString('\n')
		if err != nil {
			s.dead = true
			s.LastErr = "solver pipe: " + err.Error()
			return lines
		}
		line = strings.TrimRight(line, "\r\n")
		if line == marker || line == "\""+marker+"\"" {
			return lines
		}
		lines = append(lines, line)
	}
}

func (s *Solver) sync() []string {
	s.seq++
	m := "##" + strconv.Itoa(s.seq)
	s.raw("(echo \"" + m + "\")\n")
	s.flush()
	if s.dead {
		return nil
	}
	return s.readUntil(m)
}

func (s *Solver) classify(lines []string) Result {
	res := Unknown
	got := false
	for _, l := range lines {
		if strings.Contains(l, "(error") {
			s.Stats.Errors++
			s.LastErr = l
			return Unknown
		}
		switch l {
		case "sat":
			res, got = Sat, true
		case "unsat":
			res, got = Unsat, true
		case "unknown", "timeout":
			res, got = Unknown, true
		}
	}
	if !got {
		s.LastErr = "no verdict: " + strings.Join(lines, " | ")
	}
	return res
}

// Check decides satisfiability of the current assertion stack, optionally under extra assumptions.
func (s *Solver) Check(assuming ...*Term) Result {
	r, _ := s.CheckModel(nil, 0, assuming...)
	return r
}

// CheckModel is Check that, on Sat, also fetches the values of vars (before the temporary scope
// holding the assumptions is popped). timeoutMs > 0 overrides the solver's per-query timeout.
func (s *Solver) CheckModel(vars []*Term, timeoutMs int, assuming ...*Term) (Result, map[string]uint64) {
	if s.dead {
		s.Stats.Unknown++
		return Unknown, nil
	}
	var refs []string
	for _, a := range assuming {
		if a.Op == OpConst {
			if a.Val == 0 {
				s.Stats.Unsat++
				return Unsat, nil
			}
			continue
		}
		refs = append(refs, s.ref(a)) // named at the current level, outside the temporary scope
	}
	scoped := len(refs) > 0
	if scoped {
		s.raw("(push 1)\n")
		for _, r := range refs {
			s.raw("(assert " + r + ")\n")
		}
	}
	// Hybrid strategy (z3): the incremental core answers the many small feasibility queries in
	// well under a millisecond but can take tens of seconds on order-heavy bit-vector queries
	// that bit-blasting decides at once. So: incremental check under a short timeout first, then
	// the same assertion stack through the bit-blasting tactic with the full timeout.
	t0 := time.Now()
	var r Result
	if s.Name == "cvc5" {
		s.raw("(check-sat)\n")
		r = s.classify(s.sync())
	} else {
		full := s.defaultTimeout
		if timeoutMs > 0 {
			full = timeoutMs
		}
		quick := s.QuickMs
		if quick <= 0 {
			quick = 250
		}
		if quick > full {
			quick = full
		}
		r = Unknown
		if !s.PreferTactic || s.NoTactic {
			s.raw("(set-option :timeout " + strconv.Itoa(quick) + ")\n(check-sat)\n")
			r = s.classify(s.sync())
		}
		if r == Unknown && !s.dead && !s.NoTactic {
			s.Stats.Fallbacks++
			s.raw("(set-option :timeout " + strconv.Itoa(full) + ")\n(check-sat-using (then simplify solve-eqs bit-blast sat))\n")
			r = s.classify(s.sync())
		}
	}
	d := time.Since(t0)
	s.Stats.Time += d
	if d > s.Stats.MaxQuery {
		s.Stats.MaxQuery = d
	}
	var model map[string]uint64
	switch r {
	case Sat:
		s.Stats.Sat++
		if vars != nil {
			m, err := s.Values(vars)
			if err != nil {
				r = Unknown
				s.Stats.Sat--
				s.Stats.Unknown++
			} else {
				model = m
			}
		}
	case Unsat:
		s.Stats.Unsat++
	default:
		s.Stats.Unknown++
	}
	if scoped {
		s.raw("(pop 1)\n")
	}
	return r, model
}

// Values fetches the model values of vars after a Sat answer.
func (s *Solver) Values(vars []*Term) (map[string]uint64, error) {
	out := map[string]uint64{}
	if len(vars) == 0 {
		return out, nil
	}
	var refs []string
	for _, v := range vars {
		if _, ok := s.defined[v]; !ok {
			continue // never sent: unconstrained, reads as 0
		}
		refs = append(refs, s.nameOf(v))
	}
	if len(refs) == 0 {
		return out, nil
	}
	s.raw("(get-value (" + strings.Join(refs, " ") + "))\n")
	lines := s.sync()
	txt := strings.Join(lines, " ")
	if strings.Contains(txt, "(error") {
		s.Stats.Errors++
		s.LastErr = txt
		return nil, fmt.Errorf("get-value: %s", txt)
	}
	// parse ((|name| #x..) (|name| true) ...)
	toks := tokenize(txt)
	i := 0
	for i < len(toks) {
		if toks[i] == "(" && i+1 < len(toks) && toks[i+1] != "(" {
			name := strings.Trim(toks[i+1], "|")
			if i+2 < len(toks) {
				v, n, ok := parseVal(toks[i+2:])
				if ok {
					out[name] = v
					i += 2 + n
					continue
				}
			}
		}
		i++
	}
	return out, nil
}

func tokenize(s string) []string {
	var toks []string
	i := 0
	for i < len(s) {
		ch := s[i]
		switch {
		case ch == '(' || ch == ')':
			toks = append(toks, string(ch))
			i++
		case ch == ' ' || ch == '\t' || ch == '\n':
			i++
		case ch == '|':
			j := strings.IndexByte(s[i+1:], '|')
			if j < 0 {
				j = len(s) - i - 2
			}
			toks = append(toks, s[i:i+j+2])
			i += j + 2
		default:
			j := i
			for j < len(s) && s[j] != ' ' && s[j] != '(' && s[j] != ')' && s[j] != '\n' {
				j++
			}
			toks = append(toks, s[i:j])
			i = j
		}
	}
	return toks
}

func parseVal(toks []string) (uint64, int, bool) {
	t := toks[0]
	switch {
	case t == "true":
		return 1, 1, true
	case t == "false":
		return 0, 1, true
	case strings.HasPrefix(t, "#x"):
		v, err := strconv.ParseUint(t[2:], 16, 64)
		return v, 1, err == nil
	case strings.HasPrefix(t, "#b"):
		v, err := strconv.ParseUint(t[2:], 2, 64)
		return v, 1, err == nil
	case t == "(" && len(toks) >= 5 && toks[1] == "_" && strings.HasPrefix(toks[2], "bv"):
		v, err := strconv.ParseUint(toks[2][2:], 10, 64)
		return v, 5, err == nil
	}
	return 0, 0, false
}
