package chans

//verif:pkg ./chans
// VerifChansMerge args: number of inputs, items on input 0, items on input 1, items on each further input
//verif:case C12 quick VerifChansMerge 0..1 0..2 0 0
//verif:case C12 quick VerifChansMerge 2 0..2 0..2 0
//verif:case C12 quick VerifChansMerge 3 0..1 0..1 0
//verif:case C12 quick VerifChansMerge 4 0..1 0 0
//verif:case C12 thorough VerifChansMerge 3 0..1 0..1 1
//verif:case C12 thorough VerifChansMerge 3 2 0..1 0
//verif:case C12 thorough VerifChansMerge 4 0..1 1 0
//verif:case C12 thorough VerifChansMerge 5 1 0 0
//verif:case C12 quick VerifReplicate 0..2 0..1 0..1

// VerifChansMerge: k inputs fed by goroutines (input i sends cnt[i] tagged values then closes);
// Merge runs in its own goroutine; main drains out. Terminal states: every value received
// exactly once, per-input order preserved, Merge has returned (it finishes exactly when all
// inputs are exhausted and everything has been delivered).
func VerifChansMerge(k int, n0 int, n1 int, nRest int) {
	cnt := make([]int, k)
	for i := range cnt {
		switch i {
		case 0:
			cnt[i] = n0
		case 1:
			cnt[i] = n1
		default:
			cnt[i] = nRest
		}
	}
	ins := make([]chan int, k)
	ro := make([]<-chan int, k)
	total := 0
	for i := range ins {
		ins[i] = make(chan int)
		ro[i] = ins[i]
		total += cnt[i]
	}
	out := make(chan int)
	for i := range ins {
		i := i
		go func() {
			for j := 0; j < cnt[i]; j++ {
				ins[i] <- i*10 + j
			}
			close(ins[i])
		}()
	}
	returned := false
	go func() {
		Merge(out, ro...)
		vAtomic(func() { returned = true })
	}()
	next := make([]int, k)
	for r := 0; r < total; r++ {
		v := <-out
		i, j := v/10, v%10
		vAssert(i >= 0 && i < k, "merge/receives-only-sent-values")
		if i < 0 || i >= k {
			return
		}
		vAssert(j == next[i], "merge/per-input-order-each-once")
		next[i] = j + 1
	}
	vQuiesce()
	for i := range next {
		vAssert(next[i] == cnt[i], "merge/every-value-delivered")
	}
	vAssert(returned, "merge/returns-when-all-inputs-are-exhausted")
	vAssert(vBlockedCount() == 0, "merge/no-goroutine-left-blocked")
	vCover("chans-merge")
}

// VerifReplicate: the whole source in order to every destination; returns exactly when done.
func VerifReplicate(n int, buf0 int, buf1 int) {
	src := make(chan int)
	d0 := make(chan int, buf0)
	d1 := make(chan int, buf1)
	go func() {
		for j := 0; j < n; j++ {
			src <- j
		}
		close(src)
	}()
	returned := false
	go func() {
		Replicate[int](src, d0, d1)
		vAtomic(func() { returned = true })
	}()
	got0, got1 := 0, 0
	done := make(chan struct{})
	go func() {
		for j := 0; j < n; j++ {
			v := <-d1
			vAssert(v == j, "replicate/dst1-in-order")
			vAtomic(func() { got1++ })
		}
		close(done)
	}()
	for j := 0; j < n; j++ {
		v := <-d0
		vAssert(v == j, "replicate/dst0-in-order")
		got0++
	}
	<-done
	vQuiesce()
	vAssert(got0 == n && got1 == n, "replicate/everything-delivered")
	vAssert(returned, "replicate/returns-when-source-ends")
	vAssert(vBlockedCount() == 0, "replicate/no-goroutine-left-blocked")
	vCover("chans-replicate")
}

// VerifReplicateFew: zero or one destination - Replicate still blocks until src is closed, having
// taken every value (a producer is never left parked on src).
// args: values n, destinations (0..1)
//verif:case C12 quick VerifReplicateFew 0..2 0..1
func VerifReplicateFew(n int, dsts int) {
	src := make(chan int)
	d0 := make(chan int, n)
	sent := 0
	srcClosed := false
	go func() {
		for j := 0; j < n; j++ {
			src <- j
			vAtomic(func() { sent++ })
		}
		vAtomic(func() { srcClosed = true }) // (just before: whoever sees src closed sees the flag)
		close(src)
	}()
	closedAtReturn := false
	if dsts == 0 {
		Replicate[int](src)
	} else {
		Replicate[int](src, d0)
	}
	vAtomic(func() { closedAtReturn = srcClosed })
	vQuiesce()
	vAssert(sent == n, "replicate/takes-every-value-from-the-source")
	vAssert(closedAtReturn, "replicate/returns-only-after-the-source-was-closed")
	if dsts == 1 {
		vAssert(len(d0) == n, "replicate/everything-delivered")
	}
	vAssert(vBlockedCount() == 0, "replicate/no-goroutine-left-blocked")
	vCover("chans-replicate-few")
}

// VerifChansMergePrefilled: many inputs without the cost of many feeder goroutines. Every input
// is a buffered channel that already holds its values and has been closed, so Merge runs to
// completion in the calling goroutine and the only non-determinism left is which ready input the
// (reflect.)Select picks each time - every such choice is explored. Input i holds digit i of
// code, so over all codes every pattern of empty / one-item (/ two-item) inputs in every position
// is covered - in particular inputs that are found closed first at a low or a high index while
// others still hold values. Afterwards out holds every value exactly once, per-input order kept,
// and Merge has returned.
// (the values per input are the digits of code in the given base: base 2 - at most one value per
// input - in the quick tier, base 3 for 4 and some 5-input patterns in the thorough tier)
// args: inputs k, code, base
//verif:case C12 quick VerifChansMergePrefilled 4 0..15 2 @repeat=400
//verif:case C12 thorough VerifChansMergePrefilled 4 0..80 3 @repeat=400
//verif:case C12 quick VerifChansMergePrefilled 5 0..31 2 @repeat=400
//verif:case C12 thorough VerifChansMergePrefilled 6 0..62 2 @repeat=400
//verif:case C12 thorough VerifChansMergePrefilled 5 100..120 3 @repeat=400
func VerifChansMergePrefilled(k int, code int, base int) {
	cnt := make([]int, k)
	total := 0
	for i := range cnt {
		cnt[i] = code % base
		code /= base
		total += cnt[i]
	}
	ro := make([]<-chan int, k)
	for i := range ro {
		c := make(chan int, 2)
		for j := 0; j < cnt[i]; j++ {
			c <- i*10 + j
		}
		close(c)
		ro[i] = c
	}
	out := make(chan int, total+1)
	Merge(out, ro...) // a Merge that does not return is reported as a deadlock
	next := make([]int, k)
	vAssert(len(out) == total, "merge/every-value-delivered")
	for len(out) > 0 {
		v := <-out
		i, j := v/10, v%10
		vAssert(i >= 0 && i < k, "merge/receives-only-sent-values")
		if i < 0 || i >= k {
			return
		}
		vAssert(j == next[i], "merge/per-input-order-each-once")
		next[i] = j + 1
	}
	for i := range next {
		vAssert(next[i] == cnt[i], "merge/every-value-delivered")
	}
	vCover("chans-merge-prefilled")
}
