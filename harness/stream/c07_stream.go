package stream

import (
	"context"
	"errors"
	"time"

	"github.com/bradenaw/juniper/iterator"
)

//verif:pkg ./stream
//verif:case C07,C09 quick VerifStreamFlat 0..11 0..3 0
//verif:case C07,C09 thorough VerifStreamFlat 0..11 4..5 0
//verif:case C08,C09 quick VerifStreamFlat 0..11 0..3 1..4
//verif:case C08,C09 thorough VerifStreamFlat 0..11 4 1..4
//verif:case C07,C08,C09 quick VerifStreamChunk 0..4 0..2
//verif:case C07,C08,C09 thorough VerifStreamChunk 5 0..2
//verif:case C07,C08,C09 quick VerifStreamRuns 0..4 0..2
//verif:case C07,C08,C09 thorough VerifStreamRuns 5 0..2
//verif:case C07,C08,C09 quick VerifStreamReducers 0..4 0..3 0..1
//verif:case C07,C08,C09 thorough VerifStreamReducers 0..4 4 0..1
//verif:case C07,C08,C09 quick VerifStreamSources 0..4 0..3
//verif:case C07,C08,C09 thorough VerifStreamSources 0..4 4

// ---- instrumented source

type vCtx struct{ err error }

func (c vCtx) Deadline() (time.Time, bool)   { return time.Time{}, false }
func (c vCtx) Done() <-chan struct{}         { return nil }
func (c vCtx) Err() error                    { return c.err }
func (c vCtx) Value(key interface{}) interface{} { return nil }

type vSrc struct {
	items          []int
	pos            int
	pulls          int // Next calls that handed over an item or reported End
	closes         int
	nextAfterClose int
	faultKind      int // 0 none, 1 permanent error, 2 transient error (one failing Next)
	faultPos       int // fires when pos == faultPos (permanent: pos >= faultPos)
	faultErr       error
	fired          bool
	endSeen        bool
}

func (s *vSrc) Next(ctx context.Context) (int, error) {
	if s.closes > 0 {
		s.nextAfterClose++
	}
	if err := ctx.Err(); err != nil {
		return 0, err
	}
	if s.faultKind == 1 && s.pos >= s.faultPos {
		return 0, s.faultErr
	}
	if s.faultKind == 2 && !s.fired && s.pos == s.faultPos {
		s.fired = true
		return 0, s.faultErr
	}
	if s.pos >= len(s.items) {
		if !s.endSeen {
			s.endSeen = true
			s.pulls++ // the pull that discovers the end counts once
		}
		return 0, End
	}
	s.pulls++
	v := s.items[s.pos]
	s.pos++
	return v, nil
}

func (s *vSrc) Close() { s.closes++ }

// vStreams: a source of streams (for Flatten), itself instrumented for Close.
type vStreams struct {
	inner  []*vSrc
	pos    int
	closes int
}

func (s *vStreams) Next(ctx context.Context) (Stream[int], error) {
	if err := ctx.Err(); err != nil {
		return nil, err
	}
	if s.pos >= len(s.inner) {
		return nil, End
	}
	r := s.inner[s.pos]
	s.pos++
	return r, nil
}
func (s *vStreams) Close() { s.closes++ }

type vSlices struct {
	inner  [][]int
	pos    int
	closes int
}

func (s *vSlices) Next(ctx context.Context) ([]int, error) {
	if err := ctx.Err(); err != nil {
		return nil, err
	}
	if s.pos >= len(s.inner) {
		return nil, End
	}
	r := s.inner[s.pos]
	s.pos++
	return r, nil
}
func (s *vSlices) Close() { s.closes++ }

func vOdd(x int) bool        { return x&1 == 1 }
func vSame(a, b int) bool    { return a == b }
func vSmall(x int) bool      { return x < 100 }

// reference output with the number of source items (End counts as one more) that must be
// seen to determine each output; the final entry is the End marker.
type vRef struct {
	vals   []int
	needed []int // same length as vals; needed for End is endNeeded
	endNeeded int
}

func vRefFlat(which int, items []int, n int) vRef {
	L := len(items)
	r := vRef{endNeeded: L + 1}
	switch which {
	case 0, 1, 6, 7, 8: // identity-like: FromIterator, WithPeek, Flatten, FlattenSlices, Join
		for i, x := range items {
			r.vals = append(r.vals, x)
			r.needed = append(r.needed, i+1)
		}
	case 2: // Map
		for i, x := range items {
			r.vals = append(r.vals, x*2+1)
			r.needed = append(r.needed, i+1)
		}
	case 3: // Compact
		for i, x := range items {
			if i == 0 || items[i-1] != x {
				r.vals = append(r.vals, x)
				r.needed = append(r.needed, i+1)
			}
		}
	case 4: // Filter
		for i, x := range items {
			if vOdd(x) {
				r.vals = append(r.vals, x)
				r.needed = append(r.needed, i+1)
			}
		}
	case 5: // First(n)
		for i, x := range items {
			if i < n {
				r.vals = append(r.vals, x)
				r.needed = append(r.needed, i+1)
			}
		}
		if n <= L {
			r.endNeeded = n
			if n < 0 {
				r.endNeeded = 0
			}
		}
	case 9: // While
		for i, x := range items {
			if !vSmall(x) {
				r.endNeeded = i + 1
				break
			}
			r.vals = append(r.vals, x)
			r.needed = append(r.needed, i+1)
		}
	case 10: // Filter then Map (composition)
		for i, x := range items {
			if vOdd(x) {
				r.vals = append(r.vals, x*2+1)
				r.needed = append(r.needed, i+1)
			}
		}
	case 11: // First(n) of Compact (composition)
		k := 0
		for i, x := range items {
			if i == 0 || items[i-1] != x {
				if k < n {
					r.vals = append(r.vals, x)
					r.needed = append(r.needed, i+1)
				}
				k++
				if k == n {
					r.endNeeded = i + 1
				}
			}
		}
		if n <= 0 {
			r.endNeeded = 0
		}
	}
	return r
}

type vBuilt struct {
	out     Stream[int]
	srcs    []*vSrc // every instrumented item source handed to the library
	outer   *vStreams
	slices  *vSlices
	exactLazy bool
}

func vBuildFlat(which int, items []int, n int, arm func(s *vSrc, off int, last bool)) vBuilt {
	mk := func(it []int) *vSrc {
		s := &vSrc{items: it}
		return s
	}
	src := mk(items)
	arm(src, 0, true)
	b := vBuilt{srcs: []*vSrc{src}, exactLazy: true}
	keep := func(ctx context.Context, x int) (bool, error) { return vOdd(x), nil }
	double := func(ctx context.Context, x int) (int, error) { return x*2 + 1, nil }
	switch which {
	case 0:
		b.out = src
	case 1:
		b.out = WithPeek[int](src)
	case 2:
		b.out = Map[int, int](src, double)
	case 3:
		b.out = Compact[int](src)
	case 4:
		b.out = Filter[int](src, keep)
	case 5:
		b.out = First[int](src, n)
	case 6: // Flatten over 3 inner streams (middle one empty); the fault plan arms the last one
		a := len(items) / 2
		s0, s1, s2 := mk(items[:a]), mk(nil), mk(items[a:])
		arm(s0, 0, false)
		arm(s2, a, true)
		b.srcs = []*vSrc{s0, s1, s2}
		b.outer = &vStreams{inner: b.srcs}
		b.out = Flatten[int](b.outer)
		b.exactLazy = false
	case 7: // FlattenSlices over [items[:a], {}, items[a:]]
		a := len(items) / 2
		b.srcs = nil
		b.slices = &vSlices{inner: [][]int{append([]int(nil), items[:a]...), {}, append([]int(nil), items[a:]...)}}
		b.out = FlattenSlices[int](b.slices)
		b.exactLazy = false
	case 8: // Join of three
		a := len(items) / 2
		s0, s1, s2 := mk(items[:a]), mk(nil), mk(items[a:])
		arm(s0, 0, false)
		arm(s2, a, true)
		b.srcs = []*vSrc{s0, s1, s2}
		b.out = Join[int](s0, s1, s2)
		b.exactLazy = false
	case 9:
		b.out = While[int](src, func(ctx context.Context, x int) (bool, error) { return vSmall(x), nil })
	case 10:
		b.out = Map[int, int](Filter[int](src, keep), double)
	case 11:
		b.out = First[int](Compact[int](src), n)
	}
	return b
}

// vFaultPlan: mode 0 none; 1 permanent source error; 2 transient source error; 3 expired
// context on one consumer call; 4 transient source error AND one expired-context call.
type vFaultPlan struct {
	mode    int
	pos     int
	E       error
	badCall int
	ctxErr  error
}

func vPlan(mode int, L int) vFaultPlan {
	p := vFaultPlan{mode: mode, E: errors.New("E"), ctxErr: errors.New("ctx expired"), badCall: -1}
	if mode == 1 || mode == 2 || mode == 4 {
		p.pos = vNondetInt("faultPos")
		vAssume(vAnd(0 <= p.pos, p.pos <= L))
	}
	if mode == 3 || mode == 4 {
		p.badCall = vNondetInt("badCall")
		vAssume(vAnd(0 <= p.badCall, p.badCall <= L+2))
	}
	return p
}

// arm installs the fault in the source that holds global position p.pos: s covers the global
// positions [off, off+len(s.items)) (plus the end position if it is the last source).
func (p vFaultPlan) arm(s *vSrc, off int, last bool) {
	if p.mode != 1 && p.mode != 2 && p.mode != 4 {
		return
	}
	local := p.pos - off
	hi := len(s.items)
	inside := vAnd(0 <= local, vOr(local < hi, vAnd(last, local == hi)))
	kind := 2
	if p.mode == 1 {
		kind = 1
	}
	if inside {
		s.faultKind, s.faultPos, s.faultErr = kind, local, p.E
	}
}

// armSingle is arm for a harness with one source.
func (p vFaultPlan) armSingle(s *vSrc) { p.arm(s, 0, true) }

func (p vFaultPlan) ctx(call int) context.Context {
	if p.badCall >= 0 && call == p.badCall {
		return vCtx{err: p.ctxErr}
	}
	return vCtx{}
}

func vCheckClosed(b vBuilt, tag string) {
	for i, s := range b.srcs {
		if b.outer != nil && i >= b.outer.pos {
			// an inner stream the library never obtained is not its to close
			vAssert(s.closes <= 1, "C09:"+tag+"/unobtained-inner-not-closed-twice")
			continue
		}
		vAssert(s.closes == 1, "C09:"+tag+"/source-closed-exactly-once")
		vAssert(s.nextAfterClose == 0, "C09:"+tag+"/no-next-after-close")
	}
	if b.outer != nil {
		vAssert(b.outer.closes == 1, "C09:"+tag+"/outer-source-closed-exactly-once")
	}
	if b.slices != nil {
		vAssert(b.slices.closes == 1, "C09:"+tag+"/slice-source-closed-exactly-once")
	}
}

// VerifStreamFlat: one flat combinator (which) over a symbolic source of L items under a fault
// plan (mode); the consumer stops after a symbolic number of calls, then closes.
func VerifStreamFlat(which int, L int, mode int) {
	pfx := "C07:"
	if mode != 0 {
		pfx = "C08:"
	}
	items := make([]int, L)
	for i := range items {
		items[i] = vNondetInt("item")
	}
	n := 0
	if which == 5 || which == 11 {
		n = vNondetInt("n")
		vAssume(vAnd(0 <= n, n <= L+1))
		n = vConcretize(n)
	}
	if which == 7 && mode != 0 && mode != 3 {
		return // the slice source has no item-level fault positions
	}
	plan := vPlan(mode, L)
	b := vBuildFlat(which, items, n, plan.arm)
	ref := vRefFlat(which, items, n)
	totalPulls := func() int {
		t := 0
		for _, s := range b.srcs {
			t += s.pulls
		}
		return t
	}
	vAssert(totalPulls() == 0, pfx+"lazy/nothing-pulled-before-first-next")
	stop := vNondetInt("stopAfter") // consumer abandons after this many calls
	maxCalls := L + 4
	vAssume(vAnd(0 <= stop, stop <= maxCalls))
	stop = vConcretize(stop)
	k := 0 // outputs received
	ended := false
	sawPermanent := false
	for call := 0; call < stop; call++ {
		v, err := b.out.Next(plan.ctx(call))
		switch {
		case err == nil:
			vAssert(!ended, pfx+"sticky-end/no-item-after-end")
			vAssert(!sawPermanent, pfx+"fault/no-item-after-permanent-error")
			vAssert(k < len(ref.vals), pfx+"output/not-more-than-reference")
			if k >= len(ref.vals) {
				return
			}
			vAssert(v == ref.vals[k], pfx+"output/matches-reference")
			if mode == 0 && b.exactLazy {
				vAssert(totalPulls() <= ref.needed[k], pfx+"lazy/no-more-pulls-than-needed")
			}
			if mode == 1 {
				vAssert(ref.needed[k] <= plan.pos, pfx+"fault/outputs-only-from-items-before-the-failure")
			}
			k++
		case err == End:
			vAssert(!sawPermanent, pfx+"fault/no-end-after-permanent-error")
			vAssert(k == len(ref.vals), pfx+"output/end-only-after-all-reference-outputs")
			if mode == 0 && b.exactLazy {
				vAssert(totalPulls() <= ref.endNeeded, pfx+"lazy/no-more-pulls-than-needed-for-end")
			}
			if mode == 1 {
				vAssert(ref.endNeeded <= plan.pos, pfx+"fault/end-not-reported-instead-of-error")
			}
			ended = true
		case err == plan.E && mode != 0 && mode != 3:
			if mode == 1 {
				sawPermanent = true
			}
		case err == plan.ctxErr && call == plan.badCall:
			// an expired per-call context costs nothing: checked by the continuation
		default:
			vAssert(false, pfx+"fault/error-is-the-injected-one")
		}
	}
	b.out.Close()
	vCheckClosed(b, "close")
	vCover("stream-flat")
}

// VerifStreamChunk: Chunk(c) with c in 1..L+1 under the fault plan.
func VerifStreamChunk(L int, mode int) {
	pfx := "C07:"
	if mode != 0 {
		pfx = "C08:"
	}
	items := make([]int, L)
	for i := range items {
		items[i] = vNondetInt("item")
	}
	c := vNondetInt("chunkSize")
	vAssume(vAnd(1 <= c, c <= L+1))
	c = vConcretize(c)
	m := mode
	if mode == 2 {
		m = 4 // transient source error and an expired context
	}
	plan := vPlan(m, L)
	src := &vSrc{items: items}
	plan.armSingle(src)
	out := Chunk[int](src, c)
	vAssert(src.pulls == 0, pfx+"lazy/nothing-pulled-before-first-next")
	pos := 0
	ended := false
	for call := 0; call < L+5; call++ {
		chunk, err := out.Next(plan.ctx(call))
		switch {
		case err == nil:
			vAssert(!ended, pfx+"sticky-end/no-item-after-end")
			vAssert(len(chunk) >= 1, pfx+"chunk/non-empty")
			want := c
			if L-pos < c {
				want = L - pos
			}
			vAssert(len(chunk) == want, pfx+"chunk/size")
			for i := range chunk {
				if pos+i < L {
					vAssert(chunk[i] == items[pos+i], pfx+"chunk/items-in-order")
				}
			}
			pos += len(chunk)
			if m == 0 {
				need := pos
				if pos == L && L%c != 0 {
					need = L + 1
				}
				vAssert(src.pulls <= need, pfx+"lazy/no-more-pulls-than-needed")
			}
			if m == 1 {
				vAssert(pos <= plan.pos, pfx+"fault/outputs-only-from-items-before-the-failure")
			}
		case err == End:
			vAssert(pos == L, pfx+"chunk/end-only-after-everything")
			ended = true
		case err == plan.E && (m == 1 || m == 4):
		case err == plan.ctxErr && call == plan.badCall:
		default:
			vAssert(false, pfx+"fault/error-is-the-injected-one")
		}
	}
	if m != 1 {
		vAssert(ended, pfx+"chunk/reaches-end")
	}
	out.Close()
	vAssert(src.closes == 1, "C09:close/source-closed-exactly-once")
	vAssert(src.nextAfterClose == 0, "C09:close/no-next-after-close")
	vCover("stream-chunk")
}

// VerifStreamRuns: Runs over equality; inner streams drained (optionally abandoned early).
func VerifStreamRuns(L int, mode int) {
	pfx := "C07:"
	if mode != 0 {
		pfx = "C08:"
	}
	items := make([]int, L)
	for i := range items {
		items[i] = vNondetInt("item")
	}
	m := mode
	if mode == 2 {
		m = 4
	}
	plan := vPlan(m, L)
	src := &vSrc{items: items}
	plan.armSingle(src)
	out := Runs[int](src, vSame)
	vAssert(src.pulls == 0, pfx+"lazy/nothing-pulled-before-first-next")
	pos := 0
	call := 0
	ended := false
	abandon := vNondetBool("abandonInner") // move on to the next run without draining the inner stream
	for outer := 0; outer < L+3 && !ended; outer++ {
		var inner Stream[int]
		for try := 0; try < 3; try++ {
			r, err := out.Next(plan.ctx(call))
			call++
			if err == nil {
				inner = r
				break
			}
			if err == End {
				ended = true
				break
			}
			if err == plan.E && m == 1 {
				out.Close()
				vAssert(src.closes == 1, "C09:close/source-closed-exactly-once")
				vCover("stream-runs-fault")
				return
			}
			vAssert(vOr(vAnd(err == plan.E, m == 4), vAnd(err == plan.ctxErr, call-1 == plan.badCall)), pfx+"fault/error-is-the-injected-one")
		}
		if ended {
			break
		}
		vAssert(inner != nil, pfx+"runs/outer-yields-after-retries")
		if inner == nil {
			return
		}
		vAssert(pos < L, pfx+"runs/no-run-past-the-end")
		if pos >= L {
			return
		}
		start := pos
		if abandon {
			// skip: the next outer Next must finish the run itself
			for pos < L && items[pos] == items[start] {
				pos++
			}
			continue
		}
		for step := 0; step < L+4; step++ {
			v, err := inner.Next(plan.ctx(call))
			call++
			if err == nil {
				vAssert(pos < L, pfx+"runs/no-item-past-the-end")
				if pos >= L {
					return
				}
				vAssert(v == items[pos], pfx+"runs/items-in-order")
				vAssert(items[pos] == items[start], pfx+"runs/same-within-run")
				pos++
				continue
			}
			if err == End {
				if pos < L {
					vAssert(items[pos] != items[start], pfx+"runs/maximal")
				}
				break
			}
			if err == plan.E && m == 1 {
				out.Close()
				vAssert(src.closes == 1, "C09:close/source-closed-exactly-once")
				vCover("stream-runs-fault")
				return
			}
			vAssert(vOr(vAnd(err == plan.E, m == 4), vAnd(err == plan.ctxErr, call-1 == plan.badCall)), pfx+"fault/error-is-the-injected-one")
		}
	}
	vAssert(ended, pfx+"runs/reaches-end")
	vAssert(pos == L, pfx+"runs/end-only-after-everything")
	out.Close()
	vAssert(src.closes == 1, "C09:close/source-closed-exactly-once")
	vAssert(src.nextAfterClose == 0, "C09:close/no-next-after-close")
	vCover("stream-runs")
}

// VerifStreamReducers: Collect, Last, One, Reduce, and iterator->stream sources, with an
// optional permanent fault at a symbolic position: results match the reference, the error is
// E itself, the source is closed exactly once when the reducer returns.
func VerifStreamReducers(which int, L int, faulty int) {
	pfx := "C07:"
	if faulty != 0 {
		pfx = "C08:"
	}
	items := make([]int, L)
	for i := range items {
		items[i] = vNondetInt("item")
	}
	E := errors.New("E")
	src := &vSrc{items: items}
	p := L + 1
	if faulty == 1 {
		p = vNondetInt("faultPos")
		vAssume(vAnd(0 <= p, p <= L))
		src.faultKind, src.faultPos, src.faultErr = 1, p, E
	}
	ctx := context.Background()
	switch which {
	case 0: // Collect
		got, err := Collect[int](ctx, src)
		if faulty == 1 {
			vAssert(err == E, pfx+"collect/returns-the-source-error")
		} else {
			vAssert(err == nil, pfx+"collect/no-error")
			vAssert(len(got) == L, pfx+"collect/len")
			for i := 0; i < L && i < len(got); i++ {
				vAssert(got[i] == items[i], pfx+"collect/items")
			}
		}
	case 1: // Last(n)
		n := vNondetInt("n")
		vAssume(vAnd(0 <= n, n <= L+1))
		n = vConcretize(n)
		var got []int
		var err error
		pn := vTry(func() { got, err = Last[int](ctx, src, n) })
		vAssert(!pn, pfx+"last/no-panic")
		if pn {
			return
		}
		if faulty == 1 {
			vAssert(err == E, pfx+"last/returns-the-source-error")
		} else {
			vAssert(err == nil, pfx+"last/no-error")
			want := n
			if L < n {
				want = L
			}
			vAssert(len(got) == want, pfx+"last/len")
			for i := 0; i < want && i < len(got); i++ {
				vAssert(got[i] == items[L-want+i], pfx+"last/items")
			}
		}
	case 2: // One
		got, err := One[int](ctx, src)
		if faulty == 1 && p <= 1 {
			vAssert(err == E, pfx+"one/returns-the-source-error")
		} else if L == 0 {
			vAssert(err == ErrEmpty, pfx+"one/empty")
		} else if L == 1 {
			vAssert(vAnd(err == nil, got == items[0]), pfx+"one/single")
		} else {
			vAssert(err == ErrMoreThanOne, pfx+"one/more-than-one")
		}
	case 3: // Reduce
		sum, err := Reduce[int, int](ctx, src, 7, func(acc int, x int) (int, error) { return acc*3 + x, nil })
		if faulty == 1 {
			vAssert(err == E, pfx+"reduce/returns-the-source-error")
		} else {
			want := 7
			for _, x := range items {
				want = want*3 + x
			}
			vAssert(vAnd(err == nil, sum == want), pfx+"reduce/value")
		}
	case 4: // Reduce whose callback fails at the q-th call
		q := vNondetInt("q")
		vAssume(vAnd(0 <= q, q <= L))
		E2 := errors.New("E2")
		calls := 0
		_, err := Reduce[int, int](ctx, src, 0, func(acc int, x int) (int, error) {
			calls++
			if calls-1 == q {
				return acc, E2
			}
			return acc + x, nil
		})
		if faulty == 1 {
			vAssert(vOr(err == E, err == E2), pfx+"reduce/returns-an-injected-error")
			vAssert(vImplies(q < p, err == E2), pfx+"reduce/callback-error-first")
			vAssert(vImplies(p <= q, err == E), pfx+"reduce/source-error-first")
		} else {
			vAssert(vImplies(q < L, err == E2), pfx+"reduce/returns-the-callback-error")
			vAssert(vImplies(q >= L, err == nil), pfx+"reduce/no-error")
		}
	}
	vAssert(src.closes == 1, "C09:close/reducer-closes-source-exactly-once")
	vAssert(src.nextAfterClose == 0, "C09:close/no-next-after-close")
	vCover("stream-reducers")
}

// VerifStreamSources: Chan, Empty, Error, FromIterator, and WithPeek's Peek (with a transient
// fault: a failed Peek costs nothing).
func VerifStreamSources(which int, L int) {
	items := make([]int, L)
	for i := range items {
		items[i] = vNondetInt("item")
	}
	ctx := context.Background()
	bad := vCtx{err: errors.New("ctx expired")}
	switch which {
	case 0: // Chan over a pre-filled closed channel; an expired context is only honoured while waiting
		c := make(chan int, L)
		for _, x := range items {
			c <- x
		}
		close(c)
		st := Chan[int](c)
		for i := 0; i < L+2; i++ {
			v, err := st.Next(ctx)
			if i < L {
				vAssert(vAnd(err == nil, v == items[i]), "C07:chan/items")
			} else {
				vAssert(err == End, "C07:sticky-end/chan")
			}
		}
		st.Close()
	case 1: // Empty and Error
		_, err := Empty[int]().Next(ctx)
		vAssert(err == End, "C07:empty")
		E := errors.New("E")
		es := Error[int](E)
		_, e1 := es.Next(ctx)
		_, e2 := es.Next(ctx)
		vAssert(vAnd(e1 == E, e2 == E), "C08:error-stream/reports-its-error")
	case 2: // FromIterator: items then End; an expired context costs nothing
		st := FromIterator[int](iterator.Slice(items))
		badCall := vNondetInt("badCall")
		vAssume(vAnd(0 <= badCall, badCall <= L+1))
		k := 0
		for call := 0; call < L+3; call++ {
			var c context.Context = ctx
			if call == badCall {
				c = bad
			}
			v, err := st.Next(c)
			if call == badCall {
				vAssert(err == bad.err, "C08:fromiterator/expired-context-reported")
				continue
			}
			if k < L {
				vAssert(vAnd(err == nil, v == items[k]), "C08:fromiterator/nothing-lost-after-expired-context")
				k++
			} else {
				vAssert(err == End, "C07:sticky-end/fromiterator")
			}
		}
	case 4: // FromIterator: the caller's context expires WHILE the iterator is producing item `at`
		// (live when Next was called). Whatever that call returns - the item or the context's
		// error -, reading on with a live context gives the whole sequence, nothing lost or twice.
		at := vNondetInt("at")
		vAssume(vAnd(0 <= at, at <= L))
		cctx, cancel := context.WithCancel(ctx)
		it := &vCancellingIter{items: items, at: int(vConcretize(at)), cancel: cancel}
		st := FromIterator[int](it)
		k := 0
		ended := false
		for call := 0; call < L+3 && !ended; call++ {
			var c context.Context = ctx
			if !it.fired {
				c = cctx
			}
			wasLive := c.Err() == nil
			v, err := st.Next(c)
			switch {
			case err == nil:
				vAssert(k < L, "C08:fromiterator/not-more-than-source")
				if k < L {
					vAssert(v == items[k], "C08:fromiterator/nothing-lost-when-the-context-expires-during-the-source-call")
				}
				k++
			case err == End:
				vAssert(k == L, "C08:fromiterator/end-only-after-every-item")
				ended = true
			default:
				vAssert(vAnd(err == context.Canceled, vOr(!wasLive, it.fired)), "C08:fromiterator/only-the-context-error")
			}
		}
		vAssert(ended, "C08:fromiterator/reaches-end")
		st.Close()
		cancel()
	case 3: // WithPeek.Peek under a transient source fault and an expired context
		plan := vPlan(4, L)
		src := &vSrc{items: items}
		plan.armSingle(src)
		pk := WithPeek[int](src)
		k := 0
		ended := false
		for call := 0; call < 2*L+6; call++ {
			if call%2 == 0 {
				v, err := pk.Peek(plan.ctx(call))
				switch {
				case err == nil:
					vAssert(k < L, "C08:peek/not-more-than-source")
					if k < L {
						vAssert(v == items[k], "C08:peek/shows-next-item")
					}
				case err == End:
					vAssert(k == L, "C08:peek/end-only-at-end")
					ended = true
				default:
					vAssert(vOr(err == plan.E, vAnd(err == plan.ctxErr, call == plan.badCall)), "C08:fault/error-is-the-injected-one")
				}
			} else {
				v, err := pk.Next(plan.ctx(call))
				switch {
				case err == nil:
					vAssert(k < L, "C08:peek/not-more-than-source")
					if k < L {
						vAssert(v == items[k], "C08:peek/next-in-order-nothing-lost")
					}
					k++
				case err == End:
					vAssert(k == L, "C08:peek/end-only-at-end")
					ended = true
				default:
					vAssert(vOr(err == plan.E, vAnd(err == plan.ctxErr, call == plan.badCall)), "C08:fault/error-is-the-injected-one")
				}
			}
		}
		vAssert(ended, "C08:peek/reaches-end")
		pk.Close()
		vAssert(src.closes == 1, "C09:close/source-closed-exactly-once")
	}
	vCover("stream-sources")
}

// vCancellingIter: an iterator over items that cancels a context while it is producing item `at`
// (at == len(items): while it is reporting the end).
type vCancellingIter struct {
	items  []int
	pos    int
	at     int
	cancel context.CancelFunc
	fired  bool
}

func (it *vCancellingIter) Next() (int, bool) {
	if it.pos == it.at && !it.fired {
		it.fired = true
		it.cancel()
	}
	if it.pos >= len(it.items) {
		return 0, false
	}
	it.pos++
	return it.items[it.pos-1], true
}
