package stream

import (
	"context"
	"errors"
	"runtime"
	"sync"
	"sync/atomic"
	"time"
)

//verif:pkg ./stream
// VerifPipeDelivery args: senders, bufferSize, closeWithError(0/1), closerConcurrent(0/1)
//verif:case C10 quick VerifPipeDelivery 1 0..2 0..1 0..1
//verif:case C10 quick VerifPipeDelivery 2 0..1 0 0 @preempt=2
//verif:case C10 thorough VerifPipeDelivery 2 0..1 0 1 @preempt=2
//verif:case C10 thorough VerifPipeDelivery 2 0..2 0..1 0..1 @preempt=3
//verif:case C10 quick VerifPipeUnblock 0..5 0..1
//verif:case C10 quick VerifPipeTrySend 0..2

// VerifPipeDelivery: S senders send 2 tagged values each; a closer closes the sender (after
// joining the senders, or concurrently); the main goroutine is the receiver.
func VerifPipeDelivery(S int, buf int, closeErr int, concurrent int) {
	sender, recv := Pipe[int](buf)
	ctx := context.Background()
	E := errors.New("close error")
	const per = 2
	sendRet := make([][]int, S) // 0 not returned, 1 nil, 2 error
	for s := range sendRet {
		sendRet[s] = make([]int, per)
	}
	finished := 0
	var wg sync.WaitGroup
	for s := 0; s < S; s++ {
		s := s
		wg.Add(1)
		go func() {
			defer wg.Done()
			for i := 0; i < per; i++ {
				err := sender.Send(ctx, s*10+i)
				vAtomic(func() {
					if err == nil {
						sendRet[s][i] = 1
					} else {
						sendRet[s][i] = 2
					}
				})
				if err != nil {
					break
				}
			}
			vAtomic(func() { finished++ })
		}()
	}
	okBeforeClose := make([][]bool, S)
	for s := range okBeforeClose {
		okBeforeClose[s] = make([]bool, per)
	}
	closeCalled := false
	go func() {
		if concurrent == 0 {
			wg.Wait()
		}
		vAtomic(func() {
			closeCalled = true
			for s := 0; s < S; s++ {
				for i := 0; i < per; i++ {
					okBeforeClose[s][i] = sendRet[s][i] == 1
				}
			}
		})
		if closeErr == 1 {
			sender.Close(E)
		} else {
			sender.Close(nil)
		}
	}()
	got := make([][]bool, S)
	for s := range got {
		got[s] = make([]bool, per)
	}
	next := make([]int, S)
	sawEnd := false
	for call := 0; call < S*per+3; call++ {
		allDone := false
		vAtomic(func() { allDone = finished == S })
		v, err := recv.Next(ctx)
		if err == nil {
			s, i := v/10, v%10
			vAssert(s >= 0 && s < S && i >= 0 && i < per, "pipe/receives-only-sent-values")
			if !(s >= 0 && s < S && i >= 0 && i < per) {
				return
			}
			vAssert(!got[s][i], "pipe/each-value-at-most-once")
			vAssert(i >= next[s], "pipe/per-sender-order")
			got[s][i] = true
			next[s] = i + 1
			if sawEnd && allDone {
				vAssert(false, "pipe/end-is-sticky-once-no-send-is-in-flight")
			}
			continue
		}
		if closeErr == 1 {
			vAssert(err == E, "pipe/reports-the-close-error")
		} else {
			vAssert(err == End, "pipe/reports-end")
		}
		if !sawEnd {
			vAssert(closeCalled, "pipe/no-end-before-close")
			for s := 0; s < S; s++ {
				for i := 0; i < per; i++ {
					if okBeforeClose[s][i] {
						vAssert(got[s][i], "pipe/value-sent-before-close-delivered-before-end")
					}
				}
			}
		}
		sawEnd = true
	}
	vAssert(sawEnd, "pipe/receiver-reaches-end")
	vQuiesce()
	vAssert(finished == S, "pipe/no-send-blocks-forever")
	vCover("pipe-delivery")
}

// VerifPipeUnblock: a blocked Send / Next returns once its wake-up condition holds.
func VerifPipeUnblock(which int, buf int) {
	sender, recv := Pipe[int](buf)
	E := errors.New("close error")
	ctx, cancel := context.WithCancel(context.Background())
	for i := 0; i < buf; i++ {
		ok, err := sender.TrySend(context.Background(), 100+i) // fill the buffer
		vAssert(ok && err == nil, "pipe/trysend-fills-buffer")
	}
	returned := false
	var rerr error
	var rval int
	switch which {
	case 0, 1, 2: // blocked Send
		go func() {
			err := sender.Send(ctx, 7)
			vAtomic(func() { returned, rerr = true, err })
		}()
		vWindow() // native replay: let the Send park first (symbolically every order is explored anyway)
		switch which {
		case 0:
			recv.Close()
		case 1:
			sender.Close(E)
		case 2:
			cancel()
		}
		vQuiesce()
		vAssert(returned, "pipe/blocked-send-returns")
		switch which {
		case 0:
			vAssert(rerr == ErrClosedPipe, "pipe/send-after-receiver-close-reports-closed-pipe")
		case 1:
			vAssert(rerr == E, "pipe/send-after-sender-close-reports-close-error")
		case 2:
			vAssert(rerr == context.Canceled, "pipe/send-reports-context-error")
		}
	case 3, 4, 5: // blocked Next on an empty pipe
		if buf > 0 {
			return
		}
		go func() {
			v, err := recv.Next(ctx)
			vAtomic(func() { returned, rerr, rval = true, err, v })
		}()
		vWindow()
		switch which {
		case 3:
			go func() { sender.Send(context.Background(), 9) }()
		case 4:
			sender.Close(E)
		case 5:
			cancel()
		}
		vQuiesce()
		vAssert(returned, "pipe/blocked-next-returns")
		switch which {
		case 3:
			vAssert(rerr == nil && rval == 9, "pipe/next-returns-the-sent-value")
		case 4:
			vAssert(rerr == E, "pipe/next-reports-close-error")
		case 5:
			vAssert(rerr == context.Canceled, "pipe/next-reports-context-error")
		}
	}
	cancel()
	vCover("pipe-unblock")
}

// VerifPipeTrySend: TrySend never blocks; (true,nil) iff there was room; values arrive in order;
// after receiver Close / sender Close it reports the corresponding error.
func VerifPipeTrySend(buf int) {
	sender, recv := Pipe[int](buf)
	ctx := context.Background()
	for i := 0; i < buf+1; i++ {
		ok, err := sender.TrySend(ctx, i)
		vAssert(err == nil, "trysend/no-error")
		vAssert(ok == (i < buf), "trysend/true-iff-room")
	}
	for i := 0; i < buf; i++ {
		v, err := recv.Next(ctx)
		vAssert(err == nil && v == i, "trysend/accepted-values-arrive-in-order")
	}
	which := vChoose(2)
	E := errors.New("close error")
	if which == 0 {
		recv.Close()
		ok, err := sender.TrySend(ctx, 50)
		vAssert(!ok && err == ErrClosedPipe, "trysend/after-receiver-close")
	} else {
		sender.Close(E)
		ok, err := sender.TrySend(ctx, 50)
		vAssert(!ok && err == E, "trysend/after-sender-close")
	}
	cctx, cancel := context.WithCancel(ctx)
	cancel()
	s2, _ := Pipe[int](1)
	ok, err := s2.TrySend(cctx, 1)
	vAssert(!ok && err == context.Canceled, "trysend/cancelled-context")
	vCover("pipe-trysend")
}

// VerifPipeExpiredNext: the receiver polls with an already expired context while values are in
// flight. Such a call may report the context error or hand out a value, but it must not consume
// one silently: every value whose Send returned nil is still received, once, in order.
// args: buffer size, polls with the expired context
//verif:case C10 quick VerifPipeExpiredNext 0..2 1..2
//verif:case C10 thorough VerifPipeExpiredNext 0..2 3
func VerifPipeExpiredNext(buf int, polls int) {
	sender, recv := Pipe[int](buf)
	live := context.Background()
	expired, cancel := context.WithCancel(live)
	cancel()
	const n = 2
	sent := make([]bool, n)
	go func() {
		for i := 0; i < n; i++ {
			if err := sender.Send(live, i); err != nil {
				break
			}
			vAtomic(func() { sent[i] = true })
		}
		sender.Close(nil)
	}()
	next := 0
	take := func(v int) {
		vAssert(v == next, "pipe/values-in-order-each-once")
		next = v + 1
	}
	vWindow() // native replay: let the sender get a value in flight first
	for p := 0; p < polls; p++ {
		v, err := recv.Next(expired)
		if err == nil {
			take(v)
		} else {
			vAssert(err == context.Canceled || err == End, "pipe/expired-next-reports-context-error-or-end")
		}
	}
	for call := 0; call < n+1; call++ {
		v, err := recv.Next(live)
		if err != nil {
			vAssert(err == End, "pipe/ends-after-sender-close")
			break
		}
		take(v)
	}
	for i := 0; i < n; i++ {
		ok := false
		vAtomic(func() { ok = sent[i] })
		vAssert(!ok || next > i, "pipe/value-whose-send-returned-nil-is-received")
	}
	recv.Close()
	vCover("pipe-expired-next")
}

var vHammeredTrySend int

// vHammerTrySend (native replay only): rounds of 8 TrySends released together on a pipe with one
// free slot; reports whether a TrySend ever failed to return.
func vHammerTrySend() bool {
	if vHammeredTrySend >= 3 {
		return false
	}
	vHammeredTrySend++
	for round := 0; round < 4000; round++ {
		sender, recv := Pipe[int](1)
		var gate, returned int32
		const n = 8
		for i := 0; i < n; i++ {
			go func() {
				for atomic.LoadInt32(&gate) == 0 {
				}
				sender.TrySend(context.Background(), 1)
				atomic.AddInt32(&returned, 1)
			}()
		}
		atomic.StoreInt32(&gate, 1)
		deadline := time.Now().Add(200 * time.Millisecond)
		for atomic.LoadInt32(&returned) < n && time.Now().Before(deadline) {
			runtime.Gosched()
		}
		stuck := atomic.LoadInt32(&returned) < n
		recv.Close() // releases a parked Send
		if stuck {
			return true
		}
	}
	return false
}

// VerifPipeTrySendConcurrent: TrySend never blocks and accepts exactly as many values as there is
// room for, also when several goroutines try at the same moment.
// args: buffer size, concurrent TrySends
//verif:case C10 quick VerifPipeTrySendConcurrent 0..2 2
//verif:case C10 thorough VerifPipeTrySendConcurrent 1..2 3
func VerifPipeTrySendConcurrent(buf int, senders int) {
	sender, recv := Pipe[int](buf)
	ctx := context.Background()
	returned, accepted, failed := 0, 0, 0
	for s := 0; s < senders; s++ {
		s := s
		go func() {
			ok, err := sender.TrySend(ctx, s)
			vAtomic(func() {
				returned++
				if ok {
					accepted++
				}
				if err != nil {
					failed++
				}
			})
		}()
	}
	vQuiesce()
	vAssert(returned == senders, "trysend/never-blocks")
	if vNative() {
		vAssert(!vHammerTrySend(), "trysend/never-blocks")
	}
	want := buf
	if senders < buf {
		want = senders
	}
	vAssert(failed == 0, "trysend/no-error")
	vAssert(accepted == want, "trysend/true-iff-room")
	for i := 0; i < accepted; i++ {
		_, err := recv.Next(ctx)
		vAssert(err == nil, "trysend/accepted-values-arrive-in-order")
	}
	recv.Close()
	vCover("pipe-trysend-concurrent")
}

// VerifPipeErrorSticky: once Next has reported the sender's close (End or its error), it keeps
// reporting it, also if a Send that lost the race with Close still slipped a value into the buffer
// afterwards (such a Send may return nil; its value is dropped).
// args: buffer size (>= 1), close with an error (0/1)
//verif:case C10 quick VerifPipeErrorSticky 1..2 0..1
func VerifPipeErrorSticky(buf int, withErr int) {
	sender, recv := Pipe[int](buf)
	ctx := context.Background()
	var E error
	want := End
	if withErr == 1 {
		E = errors.New("close error")
		want = E
	}
	sender.Close(E)
	_, err := recv.Next(ctx)
	vAssert(err == want, "pipe/next-reports-the-close")
	tries := 2
	if vNative() {
		tries = 60 // natively the select inside Send picks at random: try until a value slips in
	}
	for i := 0; i < tries; i++ {
		if sender.Send(ctx, 7) == nil {
			break
		}
	}
	_, err = recv.Next(ctx)
	vAssert(err == want, "pipe/end-is-sticky-once-no-send-is-in-flight")
	_, err = recv.Next(ctx)
	vAssert(err == want, "pipe/end-is-sticky-once-no-send-is-in-flight")
	recv.Close()
	vCover("pipe-error-sticky")
}
