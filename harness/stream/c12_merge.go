package stream

import (
	"context"
	"errors"
	"sync"
	"time"
)

// native replay only: the window between Merge's internal cancellation and the recording of the
// failing input's error is a few nanoseconds. vHammerMergeError runs many merges of one failing
// input and many inputs parked in Next and reports whether the merged stream ever returned
// something else than the failing input's error.
type vParkedSrc struct {
	parked *sync.WaitGroup
	once   sync.Once
}

func (s *vParkedSrc) Next(ctx context.Context) (int, error) {
	s.once.Do(s.parked.Done)
	<-ctx.Done()
	return 0, ctx.Err()
}
func (s *vParkedSrc) Close() {}

type vFailWhenParked struct {
	parked *sync.WaitGroup
	err    error
}

func (s *vFailWhenParked) Next(ctx context.Context) (int, error) {
	s.parked.Wait()
	return 0, s.err
}
func (s *vFailWhenParked) Close() {}

var vHammeredMergeEnd int

// vHammerMergeEnd (native replay only): many merges whose inputs all end in the same instant.
// A defect in "the last input to finish closes the pipe" shows as a panic in one of the library's
// goroutines (which ends the process) or as a merge that never ends.
func vHammerMergeEnd() bool {
	if vHammeredMergeEnd >= 2 {
		return false
	}
	vHammeredMergeEnd++
	for trial := 0; trial < 60000; trial++ {
		gate := make(chan struct{})
		in := make([]Stream[int], 4)
		for i := range in {
			in[i] = &vGatedEmpty{gate: gate}
		}
		m := Merge[int](in...)
		close(gate)
		ctx, cancel := context.WithTimeout(context.Background(), 2*time.Second)
		_, err := m.Next(ctx)
		cancel()
		m.Close()
		if err != End {
			return true
		}
	}
	return false
}

type vGatedEmpty struct{ gate chan struct{} }

func (s *vGatedEmpty) Next(ctx context.Context) (int, error) {
	<-s.gate
	return 0, End
}
func (s *vGatedEmpty) Close() {}

var vHammeredMerge int // at most a few times per replay process

func vHammerMergeError(E error) bool {
	if vHammeredMerge >= 4 {
		return false
	}
	vHammeredMerge++
	const siblings = 48
	for trial := 0; trial < 2000; trial++ {
		var parked sync.WaitGroup
		parked.Add(siblings)
		in := []Stream[int]{&vFailWhenParked{parked: &parked, err: E}}
		for i := 0; i < siblings; i++ {
			in = append(in, &vParkedSrc{parked: &parked})
		}
		m := Merge[int](in...)
		_, err := m.Next(context.Background())
		m.Close()
		if err != E {
			return true
		}
	}
	return false
}

//verif:pkg ./stream
// VerifStreamMerge args: inputs k, items per input, error position on input 0 (-1 none),
//                       consumer closes after this many results (-1: reads to the end),
//                       kind of error (0 a plain error, 1 context.Canceled itself, 2 an error wrapping context.Canceled)
//verif:case C12,C09 quick VerifStreamMerge 0 0 -1 -1 0
//verif:case C12,C09 quick VerifStreamMerge 1 0..2 -1..1 -1 0
//verif:case C12,C09 quick VerifStreamMerge 2 0..1 -1..0 -1 0
//verif:case C12,C09,C08 quick VerifStreamMerge 1..2 1 0..1 -1 1..2
//verif:case C12,C09 thorough VerifStreamMerge 2 1 1 -1 0
//verif:case C12,C09 quick VerifStreamMerge 1..2 1 -1 0..1 0
//verif:case C12,C09 thorough VerifStreamMerge 3 0 -1..0 -1 0
//verif:case C12,C09 quick VerifStreamMergeBlocked 1..2
//verif:case C12,C08 quick VerifStreamMergeExpired 1..2 1 0..2
//verif:case C12,C08 thorough VerifStreamMergeExpired 2 2 0..3
//verif:case C12,C08 thorough VerifStreamMergeExpired 3 1 0..2

// vBlockSrc: an input whose Next blocks until its context is cancelled.
type vBlockSrc struct {
	closes int
}

func (s *vBlockSrc) Next(ctx context.Context) (int, error) {
	<-ctx.Done()
	return 0, ctx.Err()
}
func (s *vBlockSrc) Close() { s.closes++ }

// VerifStreamMerge: k instrumented inputs of n items each (input 0 optionally fails with E at
// position errPos); the main goroutine consumes, optionally closing the output early.
type vWrapped struct{ inner error }

func (w vWrapped) Error() string { return "wrapped: " + w.inner.Error() }
func (w vWrapped) Unwrap() error { return w.inner }

func VerifStreamMerge(k int, n int, errPos int, closeAfter int, errKind int) {
	E := errors.New("E")
	switch errKind {
	case 1:
		E = context.Canceled // the input's own error, nothing has been cancelled
	case 2:
		E = vWrapped{context.Canceled}
	}
	srcs := make([]*vSrc, k)
	ins := make([]Stream[int], k)
	for i := range srcs {
		items := make([]int, n)
		for j := range items {
			items[j] = i*10 + j
		}
		srcs[i] = &vSrc{items: items}
		if i == 0 && errPos >= 0 && errPos <= n {
			srcs[i].faultKind, srcs[i].faultPos, srcs[i].faultErr = 1, errPos, E
		}
		ins[i] = srcs[i]
	}
	failing := k > 0 && errPos >= 0 && errPos <= n
	out := Merge[int](ins...)
	ctx := context.Background()
	next := make([]int, k)
	total := 0
	ended, gotErr := false, false
	for call := 0; call < k*n+2; call++ {
		if closeAfter >= 0 && total >= closeAfter {
			break
		}
		v, err := out.Next(ctx)
		if err == nil {
			vAssert(!ended, "C12:smerge/no-item-after-end")
			i, j := v/10, v%10
			vAssert(i >= 0 && i < k, "C12:smerge/yields-only-input-items")
			if i < 0 || i >= k {
				return
			}
			vAssert(j == next[i], "C12:smerge/per-input-order-each-once")
			next[i] = j + 1
			total++
			continue
		}
		if err == End {
			vAssert(!failing, "C12:smerge/error-not-replaced-by-end")
			for i := range next {
				vAssert(next[i] == n, "C12:smerge/end-only-after-all-inputs-ended")
			}
			ended = true
			continue
		}
		vAssert(failing && err == E, "C12:smerge/reports-the-first-input-error")
		gotErr = true
		break
	}
	if vNative() && !failing && k >= 2 && closeAfter < 0 {
		vAssert(!vHammerMergeEnd(), "C12:smerge/finishes-when-inputs-do")
	}
	if vNative() && failing && k >= 2 && closeAfter < 0 {
		vAssert(!vHammerMergeError(E), "C12:smerge/reports-the-first-input-error")
	}
	if closeAfter < 0 {
		vAssert(ended || gotErr, "C12:smerge/finishes-when-inputs-do")
	}
	out.Close()
	for i := range srcs {
		n := 0
		vAtomic(func() { n = srcs[i].closes })
		vAssert(n == 1, "C09:smerge/input-closed-by-the-time-close-returns")
	}
	vQuiesce()
	vAssert(vBlockedCount() == 0, "C12:smerge/goroutines-finish-after-close")
	for i := range srcs {
		vAssert(srcs[i].closes == 1, "C09:smerge/input-closed-exactly-once")
		vAssert(srcs[i].nextAfterClose == 0, "C09:smerge/no-next-after-close")
	}
	vCover("stream-merge")
}

// VerifStreamMergeBlocked: inputs that block until their context is cancelled; after the
// consumer closes the output every goroutine Merge started finishes.
func VerifStreamMergeBlocked(k int) {
	ins := make([]Stream[int], k)
	bs := make([]*vBlockSrc, k)
	for i := range ins {
		bs[i] = &vBlockSrc{}
		ins[i] = bs[i]
	}
	out := Merge[int](ins...)
	vYield()
	out.Close()
	for i := range bs {
		n := 0
		vAtomic(func() { n = bs[i].closes })
		vAssert(n == 1, "C09:smerge/input-closed-by-the-time-close-returns")
	}
	vQuiesce()
	vAssert(vBlockedCount() == 0, "C12:smerge/goroutines-finish-after-close")
	for i := range bs {
		vAssert(bs[i].closes == 1, "C09:smerge/input-closed-exactly-once")
	}
	vCover("stream-merge-blocked")
}

// VerifStreamMergeExpired: a consumer that polls with per-call contexts. Call number badCall is
// made with a context that has already expired: it returns a value (if one happens to be ready)
// or that context's error - and costs nothing either way: no input failed, so reading on with a
// live context yields every value of every input, per-input order preserved, and then End - never
// an error that no input produced.
// args: inputs k, items per input, index of the call with the expired context
func VerifStreamMergeExpired(k int, n int, badCall int) {
	srcs := make([]*vSrc, k)
	ins := make([]Stream[int], k)
	for i := range srcs {
		items := make([]int, n)
		for j := range items {
			items[j] = i*10 + j
		}
		srcs[i] = &vSrc{items: items}
		ins[i] = srcs[i]
	}
	out := Merge[int](ins...)
	live := context.Background()
	expired, cancel := context.WithCancel(context.Background())
	cancel()
	next := make([]int, k)
	total, ended := 0, false
	for call := 0; call < k*n+3 && !ended; call++ {
		ctx := live
		if call == badCall {
			ctx = expired
		}
		v, err := out.Next(ctx)
		switch {
		case err == nil:
			i, j := v/10, v%10
			vAssert(i >= 0 && i < k, "C12:smerge/yields-only-input-items")
			if i < 0 || i >= k {
				return
			}
			vAssert(j == next[i], "C12:smerge/per-input-order-each-once")
			next[i] = j + 1
			total++
		case err == End:
			vAssert(total == k*n, "C12:smerge/end-only-after-everything-was-delivered")
			ended = true
		default:
			vAssert(call == badCall && err == context.Canceled, "C08+C12:smerge/expired-call-context-costs-nothing-no-error-that-no-input-produced")
			if call != badCall {
				return
			}
		}
	}
	vAssert(ended, "C12:smerge/finishes-when-all-inputs-are-exhausted")
	out.Close()
	vCover("smerge-expired")
}
