package stream

import (
	"context"
	"errors"
	"time"
)

//verif:pkg ./stream
// VerifBatch args: items L, batchSize, source ends with (0 End, 1 an error, 2 context.Canceled as its own error), consumer calls before Close (-1: reads to the end)
//verif:case C11 quick VerifBatch 0..1 1 0..2 -1 @fires=2 @noreplay=1 @arith=1
//verif:case C11 quick VerifBatch 1 1 0 0..1 @fires=2 @noreplay=1 @arith=1
//verif:case C11 quick VerifBatch 0 2 0..2 -1 @fires=2 @noreplay=1 @arith=1
//verif:case C11 thorough VerifBatch 1 2 0..2 -1 @fires=2 @noreplay=1 @arith=1
//verif:case C11 thorough VerifBatch 1 2 0 0..1 @fires=2 @noreplay=1 @arith=1
// VerifBatchClose args: items L (all available at once), batchSize
//verif:case C11 quick VerifBatchClose 0..3 1..2 @fires=1 @noreplay=1
//verif:case C11 thorough VerifBatchClose 4 1..3 @fires=2 @noreplay=1

type vSliceSrc struct {
	n, pos int
	closes int
}

func (s *vSliceSrc) Next(ctx context.Context) (int, error) {
	if err := ctx.Err(); err != nil {
		return 0, err
	}
	if s.pos >= s.n {
		return 0, End
	}
	s.pos++
	return s.pos - 1, nil
}
func (s *vSliceSrc) Close() { vAtomic(func() { s.closes++ }) }

// VerifBatchClose: the producer runs ahead of a consumer that never reads; Close arrives at an
// arbitrary moment (the scheduler decides how far producer and batcher have got). Close must
// return, with the background goroutines gone and the source closed.
func VerifBatchClose(L int, batchSize int) {
	src := &vSliceSrc{n: L}
	out := Batch[int](src, time.Duration(1<<30), batchSize)
	out.Close() // a Close that never returns is reported as a deadlock
	atReturn := 0
	vAtomic(func() { atReturn = src.closes })
	vAssert(atReturn == 1, "C11:batch/source-closed-by-the-time-close-returns")
	vQuiesce()
	vAssert(vBlockedCount() == 0, "C11:batch/close-stops-the-background-work")
	vAssert(src.closes == 1, "C11:batch/source-closed-exactly-once")
	vCover("batch-close")
}

// vArrSrc: a source whose items arrive when the scheduler lets the arrival goroutine run.
type vArrSrc struct {
	arrive   chan int
	errAtEnd error
	handed   []time.Time // hand-over instant of each item
	ended    bool
	closes   int
	afterClose int
}

func (s *vArrSrc) Next(ctx context.Context) (int, error) {
	if s.closes > 0 {
		vAtomic(func() { s.afterClose++ })
	}
	select {
	case v, ok := <-s.arrive:
		if !ok {
			vAtomic(func() { s.ended = true })
			if s.errAtEnd != nil {
				return 0, s.errAtEnd
			}
			return 0, End
		}
		now := time.Now()
		vAtomic(func() { s.handed = append(s.handed, now) })
		return v, nil
	case <-ctx.Done():
		return 0, ctx.Err()
	}
}

func (s *vArrSrc) Close() { vAtomic(func() { s.closes++ }) }

// VerifBatch: Batch over a source of L items arriving at arbitrary moments, symbolic maxWait.
func VerifBatch(L int, batchSize int, withErr int, closeAfter int) {
	E := errors.New("source error")
	src := &vArrSrc{arrive: make(chan int)}
	if withErr == 1 {
		src.errAtEnd = E
	}
	if withErr == 2 {
		E = context.Canceled // the source itself fails with context.Canceled while Batch is open
		src.errAtEnd = E
	}
	go func() {
		for i := 0; i < L; i++ {
			src.arrive <- i
		}
		close(src.arrive)
	}()
	maxWait := time.Duration(vNondetInt("maxWait"))
	vAssume(vAnd(maxWait > 0, maxWait < 1<<40))
	out := Batch[int](src, maxWait, batchSize)
	ctx := context.Background()
	got := 0
	ended := false
	for call := 0; call < L+2 && !ended; call++ {
		if closeAfter >= 0 && call >= closeAfter {
			break
		}
		batch, err := out.Next(ctx)
		if err == nil {
			now := time.Now()
			vAssert(len(batch) >= 1, "C11:batch/non-empty")
			vAssert(len(batch) <= batchSize, "C11:batch/at-most-batchsize")
			for i, v := range batch {
				vAssert(v == got+i, "C11:batch/items-in-source-order-nothing-lost-or-duplicated")
			}
			srcEnded := false
			var oldest time.Time
			vAtomic(func() {
				srcEnded = src.ended
				if got < len(src.handed) {
					oldest = src.handed[got]
				}
			})
			if len(batch) < batchSize && !srcEnded {
				vAssert(now.Sub(oldest) >= maxWait, "C11:batch/underfilled-batch-only-after-maxwait")
			}
			got += len(batch)
			continue
		}
		if withErr != 0 {
			vAssert(err == E, "C11:batch/reports-the-source-error")
		} else {
			vAssert(err == End, "C11:batch/reports-end")
		}
		vAssert(got == L, "C11:batch/error-or-end-only-after-the-items-before-it")
		ended = true
	}
	if closeAfter < 0 {
		vAssert(ended, "C11:batch/read-to-the-end")
	}
	out.Close() // must return (a blocked Close is reported as a deadlock)
	atReturn := 0
	vAtomic(func() { atReturn = src.closes })
	vAssert(atReturn == 1, "C11:batch/source-closed-by-the-time-close-returns")
	vQuiesce()
	vAssert(vBlockedCount() <= 1, "C11:batch/close-stops-the-background-work") // the arrival goroutine may still be parked
	vAssert(src.closes == 1, "C11:batch/source-closed-exactly-once")
	vAssert(src.afterClose == 0, "C11:batch/no-next-after-close")
	vCover("batch")
}

// vQuietSrc: L items available as fast as the producer asks for them (so their arrival times are
// the scheduler's choice of when the producer runs), then silence: the source neither ends nor fails.
type vQuietSrc struct {
	n, pos int
	handed []time.Time
	closes int
}

func (s *vQuietSrc) Next(ctx context.Context) (int, error) {
	if s.pos >= s.n {
		<-ctx.Done()
		return 0, ctx.Err()
	}
	now := time.Now()
	vAtomic(func() { s.handed = append(s.handed, now) })
	s.pos++
	return s.pos - 1, nil
}
func (s *vQuietSrc) Close() { vAtomic(func() { s.closes++ }) }

// VerifBatchQuiet: a burst of L items and then a silent source, with a consumer that keeps asking
// (up to `calls` times). Observed once everything has come to rest (timers included): every batch
// handed out was non-empty, within batchSize, in order, underfilled only after its oldest item
// waited maxWait - and nothing is held back from the waiting consumer. The path ends there (Close
// and end-of-source are VerifBatch's and VerifBatchClose's business).
// args: items L, batchSize, consumer calls
// (unbounded schedules for one item; two and three items under a preemption bound in the quick tier,
// two items with every schedule in the thorough tier)
//verif:case C11 quick VerifBatchQuiet 1 2 2 @fires=3 @noreplay=1 @arith=1
//verif:case C11 quick VerifBatchQuiet 2 2 2 @fires=3 @noreplay=1 @arith=1 @preempt=1
//verif:case C11 quick VerifBatchQuiet 3 2 3 @fires=3 @noreplay=1 @arith=1 @preempt=0
//verif:case C11 thorough VerifBatchQuiet 2 2 2 @fires=3 @noreplay=1 @arith=1
//verif:case C11 thorough VerifBatchQuiet 2 1 3 @fires=3 @noreplay=1 @arith=1 @preempt=2
//verif:case C11 thorough VerifBatchQuiet 3 2 3 @fires=3 @noreplay=1 @arith=1 @preempt=1
func VerifBatchQuiet(L int, batchSize int, calls int) {
	src := &vQuietSrc{n: L}
	maxWait := time.Duration(vNondetInt("maxWait"))
	vAssume(vAnd(maxWait > 0, maxWait < 1<<40))
	out := Batch[int](src, maxWait, batchSize)
	ctx := context.Background()
	got, done := 0, 0
	go func() {
		for call := 0; call < calls; call++ {
			batch, err := out.Next(ctx)
			now := time.Now()
			vAssert(err == nil, "C11:batchquiet/no-error-from-a-silent-source")
			vAssert(len(batch) >= 1, "C11:batch/non-empty")
			vAssert(len(batch) <= batchSize, "C11:batch/at-most-batchsize")
			for i, v := range batch {
				vAssert(v == got+i, "C11:batch/items-in-source-order-nothing-lost-or-duplicated")
			}
			var oldest time.Time
			vAtomic(func() {
				if got < len(src.handed) {
					oldest = src.handed[got]
				}
			})
			if len(batch) >= 1 && len(batch) < batchSize {
				vAssert(now.Sub(oldest) >= maxWait, "C11:batch/underfilled-batch-only-after-maxwait")
			}
			vAtomic(func() {
				got += len(batch)
				done++
			})
		}
	}()
	vQuiesce()
	vAssert(got == L || done == calls, "C11:batchquiet/nothing-held-back-from-a-waiting-consumer")
	vCover("batch-quiet")
	if vNative() {
		out.Close()
	}
}

// vTimedSrc: item i becomes available gap[i] after the previous one was taken; then silence.
type vTimedSrc struct {
	gaps   []time.Duration
	pos    int
	handed []time.Time
}

func (s *vTimedSrc) Next(ctx context.Context) (int, error) {
	if s.pos >= len(s.gaps) {
		<-ctx.Done()
		return 0, ctx.Err()
	}
	time.Sleep(s.gaps[s.pos])
	now := time.Now()
	vAtomic(func() { s.handed = append(s.handed, now) })
	s.pos++
	return s.pos - 1, nil
}
func (s *vTimedSrc) Close() {}

// VerifBatchPrompt: the "handed to a waiting consumer rather than held back" clause as a latency
// bound, under the discrete-event reading of the time model (@prompt=1: computation takes no
// time, the clock moves only when everybody is blocked, to the earliest due timer). Items arrive
// after symbolic gaps, the consumer pauses a symbolic time before each Next. Every batch must be
// handed out no later than max(the consumer's arrival, start + maxWait), where start is when
// the batcher could first have had the batch's oldest item (its arrival, or the hand-over of the
// previous batch if the batcher was still holding that). The lower bound (underfilled only after
// maxWait) and the partition assertions are checked as well.
// With slowFull = 1 the batch is built by BatchFunc with a full() callback that takes a symbolic
// time to answer (possibly longer than maxWait); the latency bound is then not asserted (it would
// have to account for the callback), the lower bound and the partition assertions are.
// args: items L, batchSize, slowFull
//verif:case C11 quick VerifBatchPrompt 1..3 2 0 @prompt=1 @fires=12 @noreplay=1 @arith=1
//verif:case C11 quick VerifBatchPrompt 3 3 0 @prompt=1 @fires=12 @noreplay=1 @arith=1
//verif:case C11 quick VerifBatchPrompt 2 2 1 @prompt=1 @fires=16 @noreplay=1 @arith=1
//verif:case C11 thorough VerifBatchPrompt 4 2..3 0 @prompt=1 @fires=16 @noreplay=1 @arith=1
//verif:case C11 thorough VerifBatchPrompt 3 2 1 @prompt=1 @fires=16 @noreplay=1 @arith=1
func VerifBatchPrompt(L int, batchSize int, slowFull int) {
	src := &vTimedSrc{}
	for i := 0; i < L; i++ {
		g := time.Duration(vNondetInt("gap"))
		vAssume(vAnd(g >= 0, g < 1<<40))
		src.gaps = append(src.gaps, g)
	}
	maxWait := time.Duration(vNondetInt("maxWait"))
	vAssume(vAnd(maxWait > 0, maxWait < 1<<40))
	var out Stream[[]int]
	if slowFull == 1 {
		fullDur := time.Duration(vNondetInt("fullDur"))
		vAssume(vAnd(fullDur >= 0, fullDur < 1<<41))
		out = BatchFunc[int](src, maxWait, func(b []int) bool {
			time.Sleep(fullDur)
			return len(b) >= batchSize
		})
	} else {
		out = Batch[int](src, maxWait, batchSize)
	}
	ctx := context.Background()
	got := 0
	var prevT time.Time
	for call := 0; got < L; call++ {
		d := time.Duration(vNondetInt("pause"))
		vAssume(vAnd(d >= 0, d < 1<<40))
		if slowFull == 1 {
			vAssume(d == 0) // (bound: with a slow full() the consumer asks again at once)
		}
		time.Sleep(d)
		w := time.Now()
		batch, err := out.Next(ctx)
		t := time.Now()
		vAssert(err == nil, "C11:batchprompt/no-error-from-a-silent-source")
		vAssert(len(batch) >= 1, "C11:batch/non-empty")
		vAssert(len(batch) <= batchSize, "C11:batch/at-most-batchsize")
		if err != nil || len(batch) == 0 {
			return
		}
		for i, v := range batch {
			vAssert(v == got+i, "C11:batch/items-in-source-order-nothing-lost-or-duplicated")
		}
		var oldest time.Time
		vAtomic(func() { oldest = src.handed[got] })
		if len(batch) < batchSize {
			vAssert(t.Sub(oldest) >= maxWait, "C11:batch/underfilled-batch-only-after-maxwait")
		}
		start := oldest
		if call > 0 && prevT.After(start) {
			start = prevT
		}
		due := start.Add(maxWait)
		if w.After(due) {
			due = w
		}
		if slowFull == 0 {
			vAssert(!t.After(due), "C11:batchprompt/handed-to-the-waiting-consumer-once-maxwait-has-passed")
		}
		prevT = t
		got += len(batch)
	}
	vCover("batch-prompt")
}

// VerifBatchWaiters: several successive waiters, some of which give up. A burst of L items, then a
// silent source; the consumer calls Next `calls` times, and the context of every call whose bit is
// set in cancelMask is cancelled at an arbitrary moment (before, during or after the call - the
// scheduler decides). A waiter that gives up gets its context's error and loses nothing; the
// batches handed to the later waiters are still non-empty, within batchSize, in source order and
// underfilled only after maxWait, and at rest nothing is held back from a consumer that is still
// waiting.
// args: items L, batchSize, consumer calls, cancelMask (bit i: call i's context gets cancelled)
// (every schedule of this harness is out of reach - 20 minutes did not finish it -, so all cases
// run under a preemption bound)
//verif:case C11 quick VerifBatchWaiters 1 2 3 1 @fires=3 @noreplay=1 @arith=1 @preempt=1
//verif:case C11 thorough VerifBatchWaiters 1 2 3 1..3 @fires=3 @noreplay=1 @arith=1 @preempt=2
//verif:case C11 thorough VerifBatchWaiters 2 2 3 1 @fires=3 @noreplay=1 @arith=1 @preempt=1
func VerifBatchWaiters(L int, batchSize int, calls int, cancelMask int) {
	src := &vQuietSrc{n: L}
	maxWait := time.Duration(vNondetInt("maxWait"))
	vAssume(vAnd(maxWait > 0, maxWait < 1<<40))
	out := Batch[int](src, maxWait, batchSize)
	got, done := 0, 0
	go func() {
		for call := 0; call < calls; call++ {
			ctx := context.Background()
			cancellable := cancelMask&(1<<call) != 0
			if cancellable {
				cctx, cancel := context.WithCancel(ctx)
				ctx = cctx
				go func() { cancel() }()
			}
			batch, err := out.Next(ctx)
			now := time.Now()
			if err != nil {
				vAssert(cancellable && err == context.Canceled, "C11:batchwaiters/only-a-cancelled-call-fails-and-with-its-context-error")
				vAtomic(func() { done++ })
				continue
			}
			vAssert(len(batch) >= 1, "C11:batch/non-empty")
			vAssert(len(batch) <= batchSize, "C11:batch/at-most-batchsize")
			for i, v := range batch {
				vAssert(v == got+i, "C11:batch/items-in-source-order-nothing-lost-or-duplicated")
			}
			var oldest time.Time
			vAtomic(func() {
				if got < len(src.handed) {
					oldest = src.handed[got]
				}
			})
			if len(batch) >= 1 && len(batch) < batchSize {
				vAssert(now.Sub(oldest) >= maxWait, "C11:batch/underfilled-batch-only-after-maxwait")
			}
			vAtomic(func() {
				got += len(batch)
				done++
			})
		}
	}()
	vQuiesce()
	vAssert(got == L || done == calls, "C11:batchquiet/nothing-held-back-from-a-waiting-consumer")
	vCover("batch-waiters")
	if vNative() {
		out.Close()
	}
}
