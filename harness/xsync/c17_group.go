package xsync

import (
	"context"
	"runtime"
	"sync"
	"sync/atomic"
	"time"
)

//verif:pkg ./xsync
// VerifGroupTrigger args: trigger calls (from concurrent goroutines), variant (0 Trigger, 1 PeriodicOrTrigger)
//verif:case C17 quick VerifGroupTrigger 1..2 0
//verif:case C17 quick VerifGroupTrigger 1 1 @fires=2 @noreplay=1
//verif:case C17 thorough VerifGroupTrigger 3 0
//verif:case C17 thorough VerifGroupTrigger 2 1 @fires=2 @noreplay=1
// VerifGroupStop args: what races with StopAndWait (0 Do registration, 1 Trigger registration + call,
//   2 parent context cancelled first, 3 Stop() called first - a function is still finishing in both)
//verif:case C17 quick VerifGroupStop 0..3
// VerifGroupPeriodic args: runs to wait for
//verif:case C17 quick VerifGroupPeriodic 1..2 @fires=3 @noreplay=1
//verif:case C17 thorough VerifGroupPeriodic 3 @fires=4 @noreplay=1

type vRunLog struct {
	step     int // ghost step counter
	running  int
	overlap  bool
	starts   int
	ends     int
	lastStart int
	afterStop int
	stopped  bool
}

func (l *vRunLog) f(ctx context.Context) {
	vAtomic(func() {
		l.step++
		l.running++
		if l.running > 1 {
			l.overlap = true
		}
		l.starts++
		l.lastStart = l.step
		if l.stopped {
			l.afterStop++
		}
	})
	vYield()
	vAtomic(func() {
		l.step++
		l.running--
		l.ends++
	})
}

// VerifGroupTrigger: every trigger call is followed by a complete run that begins after it;
// runs of one f never overlap; afterwards StopAndWait is a barrier.
func VerifGroupTrigger(calls int, variant int) {
	g := NewGroup(context.Background())
	l := &vRunLog{}
	var trigger func()
	if variant == 0 {
		trigger = g.Trigger(l.f)
	} else {
		trigger = g.PeriodicOrTrigger(time.Duration(vNondetInt("interval")), 0, l.f)
	}
	lastTrig := 0
	for i := 0; i < calls; i++ {
		go func() {
			vAtomic(func() {
				l.step++
				lastTrig = l.step // stamped when the call begins
			})
			trigger()
		}()
	}
	vQuiesce()
	if variant == 0 {
		// (with a periodic timer the bound on timer firings ends the path instead)
		vAssert(l.running == 0 && l.starts == l.ends, "trigger/runs-complete")
		vAssert(l.starts >= 1, "trigger/a-trigger-call-is-followed-by-a-run")
		vAssert(l.lastStart > 0 && l.starts >= 1 && lastTrig > 0, "trigger/bookkeeping")
		// a complete run must begin after the beginning of the last trigger call
		vAssert(l.lastStart > lastTrig, "trigger/run-begins-after-the-last-trigger-call")
	}
	vAssert(!l.overlap, "trigger/runs-never-overlap")
	g.StopAndWait()
	vAtomic(func() { l.stopped = true })
	vAssert(l.running == 0, "stopandwait/nothing-running-when-it-returns")
	before := l.starts
	vQuiesce()
	vAssert(l.starts == before && l.afterStop == 0, "stopandwait/nothing-starts-afterwards")
	vCover("group-trigger")
}

// VerifGroupStop: registrations racing with the stop.
func VerifGroupStop(which int) {
	parent, cancelParent := context.WithCancel(context.Background())
	g := NewGroup(parent)
	l := &vRunLog{}
	switch which {
	case 0:
		go func() { g.Do(l.f) }()
		if vNative() {
			// native replay only: hammer the racing registration with a cheap function from many
			// goroutines, so that the window the scheduler found by choice is hit within a few
			// runs (the same assertions, observed with atomics instead of the ghost log)
			var stopped, late, running int32
			cheap := func(ctx context.Context) {
				atomic.AddInt32(&running, 1)
				if atomic.LoadInt32(&stopped) != 0 {
					atomic.AddInt32(&late, 1)
				}
				atomic.AddInt32(&running, -1)
			}
			n := runtime.GOMAXPROCS(0) - 1
			if n < 2 {
				n = 2
			}
			var ready, fin sync.WaitGroup
			var quit int32
			for w := 0; w < n; w++ {
				ready.Add(1)
				fin.Add(1)
				go func() {
					defer fin.Done()
					ready.Done()
					for atomic.LoadInt32(&quit) == 0 {
						g.Do(cheap)
					}
				}()
			}
			ready.Wait()
			g.StopAndWait()
			stillRunning := atomic.LoadInt32(&running)
			atomic.StoreInt32(&stopped, 1)
			time.Sleep(50 * time.Microsecond)
			atomic.StoreInt32(&quit, 1)
			fin.Wait()
			time.Sleep(50 * time.Microsecond)
			vAssert(stillRunning == 0, "stopandwait/nothing-running-when-it-returns")
			vAssert(atomic.LoadInt32(&late) == 0, "stopandwait/nothing-starts-afterwards")
			cancelParent()
			vCover("group-stop")
			return
		}
	case 1:
		go func() {
			t := g.Trigger(l.f)
			t()
		}()
	case 2, 3:
		g.Do(func(ctx context.Context) {
			<-ctx.Done()
			l.f(ctx) // still finishing after the group has been told to stop
		})
	}
	switch which {
	case 2:
		cancelParent()
	case 3:
		g.Stop()
	}
	vJitter()
	g.StopAndWait()
	vAtomic(func() { l.stopped = true })
	vAssert(l.running == 0, "stopandwait/nothing-running-when-it-returns")
	vQuiesce()
	vAssert(l.afterStop == 0 && l.running == 0, "stopandwait/nothing-starts-afterwards")
	if !vNative() {
		vAssert(vBlockedCount() == 0, "stopandwait/no-goroutine-left")
	}
	cancelParent()
	vCover("group-stop")
}

// VerifGroupPeriodic: a periodic function keeps being invoked, one run at a time, until the
// group is stopped (the harness stops it after `runs` runs; if the timer were not re-armed the
// wait below would deadlock).
func VerifGroupPeriodic(runs int) {
	g := NewGroup(context.Background())
	l := &vRunLog{}
	reached := make(chan struct{})
	g.Periodic(time.Duration(vNondetInt("interval")), 0, func(ctx context.Context) {
		l.f(ctx)
		n := 0
		vAtomic(func() { n = l.ends })
		if n == runs {
			close(reached)
		}
	})
	<-reached
	g.StopAndWait()
	vAtomic(func() { l.stopped = true })
	vAssert(!l.overlap, "periodic/runs-never-overlap")
	vAssert(l.running == 0, "stopandwait/nothing-running-when-it-returns")
	vQuiesce()
	vAssert(l.afterStop == 0, "stopandwait/nothing-starts-afterwards")
	vCover("group-periodic")
}

// VerifGroupPeriodicOrTrigger: PeriodicOrTrigger under the discrete-event reading of the time model
// (@prompt=1: computation takes no time, the clock moves only when everybody is blocked). f takes
// a symbolic time to run; the trigger function is called once, a symbolic time after the start
// (so: while f is idle, while a timer-started run is in progress, or in the same instant as a tick).
// Asserted: the trigger call is followed by a run that begins at once - at the call if f was idle,
// at the end of the run in progress otherwise - and periodic invocation goes on afterwards (the
// harness waits for two more runs: it deadlocks if the timer was not re-armed).
// args: runs to wait for after the trigger call
//verif:case C17 quick VerifGroupPeriodicOrTrigger 2 @prompt=1 @fires=8 @noreplay=1 @arith=1
//verif:case C17 thorough VerifGroupPeriodicOrTrigger 3 @prompt=1 @fires=12 @noreplay=1 @arith=1
func VerifGroupPeriodicOrTrigger(after int) {
	g := NewGroup(context.Background())
	runDur := time.Duration(vNondetInt("runDur"))
	vAssume(vAnd(runDur >= 0, runDur < 1<<30))
	interval := time.Duration(vNondetInt("interval"))
	vAssume(vAnd(interval > 0, interval < 1<<40))
	pause := time.Duration(vNondetInt("pause"))
	vAssume(vAnd(pause >= 0, pause < 1<<41))
	var starts, ends []time.Time
	total, running, overlap := 0, 0, false
	trigger := g.PeriodicOrTrigger(interval, 0, func(ctx context.Context) {
		s := time.Now()
		vAtomic(func() {
			starts = append(starts, s)
			running++
			if running > 1 {
				overlap = true
			}
		})
		time.Sleep(runDur)
		e := time.Now()
		vAtomic(func() {
			ends = append(ends, e)
			running--
			total++
		})
	})
	time.Sleep(pause)
	T := time.Now()
	need := 0
	vAtomic(func() { need = total + running + after })
	trigger()
	vAwait(func() bool { return total >= need })
	g.StopAndWait()
	vAssert(!overlap, "periodicortrigger/runs-never-overlap")
	// the end of the run that was in progress at T (T itself if f was idle)
	busy := T
	for i := range ends {
		inProgress := vAnd(!starts[i].After(T), T.Before(ends[i]))
		busy = vIte(inProgress, ends[i], busy)
	}
	ok := false
	for j := range starts {
		ok = vOr(ok, vAnd(!starts[j].Before(T), !starts[j].After(busy)))
	}
	vAssert(ok, "periodicortrigger/a-trigger-call-is-followed-at-once-by-a-run")
	vCover("group-periodic-or-trigger")
}

// VerifGroupAfterStop: once StopAndWait has returned, nothing registered later ever starts -
// whatever ended the group's context first (0 only the stop, 1 the parent was cancelled, 2 the
// parent's deadline passed).
//verif:case C17 quick VerifGroupAfterStop 0..2 @fires=2
func VerifGroupAfterStop(how int) {
	parent := context.Background()
	cancel := func() {}
	switch how {
	case 1:
		parent, cancel = context.WithCancel(parent)
		cancel()
	case 2:
		d := time.Duration(vNondetInt("timeout"))
		vAssume(vAnd(d > 0, d < 1<<40))
		parent, cancel = context.WithTimeout(parent, d)
		<-parent.Done() // the deadline has passed
	}
	g := NewGroup(parent)
	g.StopAndWait()
	started := 0
	f := func(ctx context.Context) { vAtomic(func() { started++ }) }
	g.Do(f)
	g.Periodic(time.Duration(1), 0, f)
	t := g.Trigger(f)
	t()
	pt := g.PeriodicOrTrigger(time.Duration(1), 0, f)
	pt()
	vQuiesce()
	vAssert(started == 0, "stopandwait/nothing-starts-afterwards")
	vAssert(vBlockedCount() == 0, "stopandwait/no-goroutine-left")
	cancel()
	vCover("group-after-stop")
}
