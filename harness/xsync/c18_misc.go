package xsync

import (
	"context"
	"errors"
	"sync"
	"sync/atomic"
)

var vHammeredWatchable int

// vHammerWatchable (native replay only): a Value call and a second Set released together with the
// first Set of a fresh Watchable, many times; reports whether a channel handed out with a cell
// that is no longer current was left open.
func vHammerWatchable() bool {
	if vHammeredWatchable >= 3 {
		return false
	}
	vHammeredWatchable++
	for trial := 0; trial < 20000; trial++ {
		var w Watchable[int]
		var gate int32
		var wg sync.WaitGroup
		var ch chan struct{}
		wg.Add(3)
		spin := func() {
			for atomic.LoadInt32(&gate) == 0 {
			}
		}
		go func() { defer wg.Done(); spin(); w.Set(1) }()
		go func() { defer wg.Done(); spin(); w.Set(2) }()
		go func() { defer wg.Done(); spin(); _, ch = w.Value() }()
		atomic.StoreInt32(&gate, 1)
		wg.Wait()
		if _, finalCh := w.Value(); ch != finalCh && !vIsClosed(ch) {
			return true
		}
	}
	return false
}

//verif:pkg ./xsync
// VerifWatchable args: setters (0..2), observer rounds
//verif:case C18 quick VerifWatchable 0..2 1..2
//verif:case C18 thorough VerifWatchable 2 3
//verif:case C18 quick VerifFuture 0..2 0..1
//verif:case C18 quick VerifLazy 1..2
// VerifTypedMap args: value type (0 int, 1 *int, 2 error), number of operations
//verif:case C18 quick VerifTypedMap 0..2 1..2
//verif:case C18 thorough VerifTypedMap 0..2 3

type vSeen struct {
	v  int
	ch chan struct{}
}

func vIsClosed(c chan struct{}) bool {
	select {
	case <-c:
		return true
	default:
		return false
	}
}

// VerifWatchable: concurrent Sets, a Value racing the first Set, an observer running the
// documented loop. Terminal states: the finally stored cell's channel is open, every channel
// handed out with an older cell is closed, every value is zero or the argument of some Set, and
// an observer that is still waiting is waiting on the final cell (so it has seen the final value).
func VerifWatchable(setters int, rounds int) {
	var w Watchable[int]
	var seen []vSeen
	record := func(v int, ch chan struct{}) { vAtomic(func() { seen = append(seen, vSeen{v, ch}) }) }
	for s := 1; s <= setters; s++ {
		s := s
		go func() { w.Set(s) }()
	}
	go func() { // a Value call racing the Sets
		v, ch := w.Value()
		record(v, ch)
	}()
	obsDone := false
	go func() {
		for r := 0; r < rounds; r++ {
			v, ch := w.Value()
			record(v, ch)
			<-ch // wait for the next change
		}
		vAtomic(func() { obsDone = true })
	}()
	vQuiesce()
	// the final state through the public API only (the representation is the library's business)
	finalV, finalCh := w.Value()
	vAssert(finalCh != nil, "watchable/value-hands-out-a-channel")
	vAssert(!vIsClosed(finalCh), "watchable/current-channel-is-open")
	if setters == 0 {
		vAssert(finalV == 0, "watchable/zero-before-first-set")
	} else {
		vAssert(finalV >= 1 && finalV <= setters, "watchable/final-value-is-a-set-argument")
	}
	for _, s := range seen {
		vAssert(s.v >= 0 && s.v <= setters, "watchable/value-is-zero-or-a-set-argument")
		if s.ch == finalCh {
			vAssert(s.v == finalV, "watchable/open-channel-goes-with-the-final-value")
		} else {
			vAssert(vIsClosed(s.ch), "watchable/older-channels-are-closed")
		}
	}
	if vNative() && setters >= 1 {
		vAssert(!vHammerWatchable(), "watchable/older-channels-are-closed")
	}
	if !obsDone && len(seen) > 0 {
		// the observer is parked: it can only be parked on the final cell's channel
		last := seen[len(seen)-1]
		_ = last
		parkedOnFinal := false
		for _, s := range seen {
			if s.ch == finalCh {
				parkedOnFinal = true
			}
		}
		vAssert(parkedOnFinal, "watchable/waiting-observer-has-seen-the-final-value")
	}
	vCover("watchable")
}

// VerifFuture: Fill racing Wait / WaitContext callers and a later Wait.
func VerifFuture(waiters int, fill int) {
	f := NewFuture[int]()
	x := vNondetInt("x")
	got := make([]int, waiters)
	done := make([]bool, waiters)
	for i := 0; i < waiters; i++ {
		i := i
		go func() {
			var v int
			if i == 0 {
				v = f.Wait()
			} else {
				var err error
				v, err = f.WaitContext(context.Background())
				vAssert(err == nil, "future/waitcontext-no-error")
			}
			vAtomic(func() { got[i], done[i] = v, true })
		}()
	}
	ctx, cancel := context.WithCancel(context.Background())
	var cerr error
	cdone := false
	go func() {
		_, err := f.WaitContext(ctx)
		vAtomic(func() { cerr, cdone = err, true })
	}()
	if fill == 1 {
		go func() { f.Fill(x) }()
	} else {
		cancel()
	}
	vQuiesce()
	if fill == 1 {
		for i := 0; i < waiters; i++ {
			vAssert(done[i], "future/waiters-return-after-fill")
			vAssert(got[i] == x, "future/everyone-gets-the-filled-value")
		}
		vAssert(cdone && cerr == nil, "future/waitcontext-returns-after-fill")
		vAssert(f.Wait() == x, "future/later-wait-gets-the-value")
		v, err := f.WaitContext(ctx)
		vAssert(v == x && err == nil, "future/value-never-changes")
	} else {
		vAssert(cdone && cerr == context.Canceled, "future/waitcontext-gives-up-when-context-ends")
		for i := 0; i < waiters; i++ {
			vAssert(!done[i], "future/no-value-before-fill")
		}
	}
	cancel()
	vCover("future")
}

// VerifLazy: concurrent first calls and a later call: f ran once, everyone got its result.
func VerifLazy(callers int) {
	runs := 0
	x := vNondetInt("x")
	l := Lazy(func() int {
		vAtomic(func() { runs++ })
		vWindow() // natively the initialiser takes a while, so that first calls really overlap
		return x
	})
	got := make([]int, callers)
	for i := 0; i < callers; i++ {
		i := i
		go func() {
			v := l()
			vAtomic(func() { got[i] = v })
		}()
	}
	vQuiesce()
	vAssert(runs == 1, "lazy/function-ran-once")
	for i := range got {
		vAssert(got[i] == x, "lazy/every-caller-gets-the-result")
	}
	vAssert(l() == x && runs == 1, "lazy/later-call-reuses-the-result")
	vCover("lazy")
}

// vMapSeq drives a typed Map through `steps` symbolic operations on keys from a 2-value domain
// and compares every result with a model (what sync.Map documents, typed).
func vEq[V any](a, b V) bool { return interface{}(a) == interface{}(b) }

func vMapSeq[V any](steps int, vals []V) {
	var m Map[int, V]
	var zero V
	model := map[int]V{}
	for s := 0; s < steps; s++ {
		k := vNondetInt("k")
		vAssume(vAnd(0 <= k, k <= 1))
		k = vConcretize(k)
		v := vals[vChoose(len(vals))]
		old, present := model[k]
		op := vChoose(9)
		p := vTry(func() {
			switch op {
			case 0:
				m.Store(k, v)
				model[k] = v
			case 1:
				got, ok := m.Load(k)
				vAssert(ok == present, "map/load-ok")
				vAssert(vEq(got, old), "map/load-value-or-zero")
			case 2:
				got, loaded := m.LoadOrStore(k, v)
				vAssert(loaded == present, "map/loadorstore-loaded")
				if present {
					vAssert(vEq(got, old), "map/loadorstore-existing")
				} else {
					vAssert(vEq(got, v), "map/loadorstore-stored")
					model[k] = v
				}
			case 3:
				got, loaded := m.LoadAndDelete(k)
				vAssert(loaded == present, "map/loadanddelete-loaded")
				vAssert(vEq(got, old), "map/loadanddelete-value-or-zero")
				delete(model, k)
			case 4:
				m.Delete(k)
				delete(model, k)
			case 5:
				prev, loaded := m.Swap(k, v)
				vAssert(loaded == present, "map/swap-loaded")
				vAssert(vEq(prev, old), "map/swap-previous-or-zero")
				model[k] = v
			case 6:
				o := vals[vChoose(len(vals))]
				swapped := m.CompareAndSwap(k, o, v)
				vAssert(swapped == (present && vEq(old, o)), "map/compareandswap")
				if swapped {
					model[k] = v
				}
			case 7:
				o := vals[vChoose(len(vals))]
				deleted := m.CompareAndDelete(k, o)
				vAssert(deleted == (present && vEq(old, o)), "map/compareanddelete")
				if deleted {
					delete(model, k)
				}
			case 8:
				n := 0
				m.Range(func(key int, value V) bool {
					mv, ok := model[key]
					vAssert(ok && vEq(mv, value), "map/range-yields-current-entries")
					n++
					return true
				})
				vAssert(n == len(model), "map/range-yields-every-entry")
			}
		})
		vAssert(!p, "map/no-panic")
		if p {
			return
		}
	}
	_ = zero
	vCover("typed-map")
}

func VerifTypedMap(vtype int, steps int) {
	switch vtype {
	case 0:
		vMapSeq[int](steps, []int{0, 7})
	case 1:
		a := new(int)
		vMapSeq[*int](steps, []*int{nil, a})
	case 2:
		vMapSeq[error](steps, []error{nil, errors.New("e")})
	}
}
