package xsync

import (
	"context"
	"reflect"
	"sync"
	"sync/atomic"
	"time"
	"unsafe"
)

//verif:pkg ./xsync
// args: waiters k, signals m (0 = one Broadcast; 10+s = s Signals followed by one Broadcast), signaller holds L (0/1), cancel one waiter (0 no,
//       1 at an arbitrary moment after it entered Wait, 2 its context has expired before it calls Wait),
//       a Broadcast (and a Signal) with nobody waiting happened earlier (0/1); 2: nothing happened earlier,
//       but the signaller starts as soon as ONE waiter is inside Wait (the others may arrive during or
//       after the signals): then at least one waiter must wake
//verif:case C16 quick VerifCondWakeups 1..2 0..2 0..1 0 0
//verif:case C16 quick VerifCondWakeups 1..2 0..1 0 1 0
//verif:case C16 quick VerifCondWakeups 1 0..1 0 0 1
//verif:case C16 quick VerifCondWakeups 1..2 0..1 0 2 0
//verif:case C16 quick VerifCondWakeups 1..2 11..12 0..1 0 0
//verif:case C16 quick VerifCondWakeups 2 0..1 0..1 0 2
//verif:case C16 quick VerifCondWakeups 2 3 0..1 0 0
//verif:case C16 quick VerifCondWakeups 2 2 0 1 0
//verif:case C16 thorough VerifCondWakeups 3 0..1 0 0 2
//verif:case C16 thorough VerifCondWakeups 3 11..12 0 0 0
//verif:case C16 thorough VerifCondWakeups 3 0..3 0..1 0 0
//verif:case C16 thorough VerifCondWakeups 2 2..3 0..1 0..1 0
//verif:case C16 thorough VerifCondWakeups 3 1 0 1 0
//verif:case C16 thorough VerifCondWakeups 2 0..1 0..1 0 1

// vLocker: a Locker that records which goroutines have released it at least once (= have
// entered Wait and released the lock) and who owns it.
type vLocker struct {
	mu       sync.Mutex
	released [8]bool
	owner    int
}

func (l *vLocker) Lock() {
	l.mu.Lock()
	l.owner = vGoroutineID()
}

func (l *vLocker) Unlock() {
	g := vGoroutineID()
	l.owner = -1
	if g >= 0 && g < len(l.released) {
		l.released[g] = true
	}
	l.mu.Unlock()
	vWindow() // native replay: hold the caller between the release and what follows
}

func (l *vLocker) entered() int {
	n := 0
	for _, r := range l.released {
		if r {
			n++
		}
	}
	return n
}


// native replay only: the window inside Signal (between giving up the read lock and whatever the
// fallback does next) is a few nanoseconds wide. vAmplifySignalWindow holds it open the way a
// debugger would: both waiters are paused right after releasing the lock (gated Locker), Signal 1
// leaves its token, and while the harness holds the condition variable's internal RWMutex for
// reading, Signal 2 runs into the occupied slot and stalls where its fallback wants the write
// lock; waiter A is let go and takes the token, the read lock is dropped, Signal 2 finishes, waiter
// B is let go - and must wake. The internal mutex is found by reflection (field "m" of type
// sync.RWMutex); with another representation the amplification is skipped, never a build error.
type vGateLocker struct {
	mu    sync.Mutex
	gates chan chan struct{}
}

func (l *vGateLocker) Lock() { l.mu.Lock() }
func (l *vGateLocker) Unlock() {
	l.mu.Unlock()
	g := make(chan struct{})
	l.gates <- g
	<-g
}

func vFieldRW(c *ContextCond) (*sync.RWMutex, bool) {
	f := reflect.ValueOf(c).Elem().FieldByName("m")
	if !f.IsValid() || f.Type() != reflect.TypeOf(sync.RWMutex{}) {
		return nil, false
	}
	return (*sync.RWMutex)(unsafe.Pointer(f.UnsafeAddr())), true
}

var vAmplifiedCond int

func vAmplifySignalWindow() bool {
	if vAmplifiedCond >= 3 {
		return false
	}
	vAmplifiedCond++
	L := &vGateLocker{gates: make(chan chan struct{}, 4)}
	c := NewContextCond(L)
	rw, ok := vFieldRW(c)
	if !ok {
		return false
	}
	var woken int32
	for i := 0; i < 2; i++ {
		go func() {
			L.Lock()
			if c.Wait(context.Background()) == nil {
				atomic.AddInt32(&woken, 1)
				L.mu.Unlock()
			}
		}()
	}
	gA, gB := <-L.gates, <-L.gates // both waiters have released the lock and are held before the select
	c.Signal()
	rw.RLock()
	done := make(chan struct{})
	go func() { c.Signal(); close(done) }()
	pending := false
	for deadline := time.Now().Add(2 * time.Second); time.Now().Before(deadline); {
		if rw.TryRLock() { // succeeds as long as no writer is waiting
			rw.RUnlock()
			time.Sleep(50 * time.Microsecond)
			continue
		}
		pending = true
		break
	}
	close(gA)
	if pending {
		for deadline := time.Now().Add(2 * time.Second); atomic.LoadInt32(&woken) < 1 && time.Now().Before(deadline); {
			time.Sleep(50 * time.Microsecond)
		}
	}
	rw.RUnlock()
	<-done
	close(gB)
	for deadline := time.Now().Add(2 * time.Second); atomic.LoadInt32(&woken) < 2; {
		if time.Now().After(deadline) {
			c.Broadcast() // let the sleeper go
			return pending
		}
		time.Sleep(50 * time.Microsecond)
	}
	return false
}

// VerifCondWakeups: k goroutines enter Wait; once all have released the lock the signaller
// issues m Signals (m == 0: one Broadcast). In every terminal state at least min(k, m) waiters
// (Broadcast: all) have returned nil, a waiter that returned nil holds the lock at return, a
// waiter whose context was cancelled returns the context's error without the lock, and a
// cancelled waiter never swallows the wakeup another waiter needs.
func VerifCondWakeups(k int, m int, holdL int, cancelOne int, earlier int) {
	L := &vLocker{owner: -1}
	c := NewContextCond(L)
	if earlier == 1 {
		// history before anybody waits: the condition variable must behave the same afterwards
		c.Broadcast()
	}
	const (
		pending = iota
		woke
		ctxErr
	)
	res := make([]int, k)
	gids := make([]int, k)
	for i := range gids {
		gids[i] = -1
	}
	ownedAtReturn := make([]bool, k)
	ctxs := make([]context.Context, k)
	var cancel0 context.CancelFunc
	for i := range ctxs {
		ctxs[i] = context.Background()
	}
	if cancelOne >= 1 {
		ctxs[0], cancel0 = context.WithCancel(context.Background())
	}
	if cancelOne == 2 {
		cancel0()
	}
	for i := 0; i < k; i++ {
		i := i
		go func() {
			me := vGoroutineID()
			vAtomic(func() { gids[i] = me })
			L.Lock()
			err := c.Wait(ctxs[i])
			vAtomic(func() {
				ownedAtReturn[i] = L.owner == me
				if err == nil {
					res[i] = woke
				} else {
					res[i] = ctxErr
				}
			})
			if err == nil {
				L.Unlock()
			}
		}()
	}
	if earlier == 2 {
		vAwait(func() bool { return L.entered() >= 1 })
	}
	vAwait(func() bool {
		if earlier == 2 {
			return true
		}
		// every waiter has released the lock inside Wait (a waiter whose context had expired and
		// that came back with the error without ever releasing the lock is caught below)
		for i := 0; i < k; i++ {
			in := gids[i] >= 0 && L.released[gids[i]]
			if !in && !(i == 0 && cancelOne == 2 && res[0] == ctxErr) {
				return false
			}
		}
		return true
	})
	if cancelOne == 1 {
		go func() { cancel0() }() // cancellation at an arbitrary point relative to the signals
	}
	if holdL == 1 {
		L.Lock()
	}
	thenBroadcast := m >= 10
	if thenBroadcast {
		m -= 10
	}
	for s := 0; s < m; s++ {
		c.Signal()
	}
	if m == 0 || thenBroadcast {
		c.Broadcast()
		m = 0 // everybody must wake
	}
	if holdL == 1 {
		L.mu.Unlock()
	}
	vQuiesce()
	nWoke := 0
	for i := 0; i < k; i++ {
		if res[i] == woke {
			nWoke++
			vAssert(ownedAtReturn[i], "wait/nil-return-holds-the-lock")
		}
		if res[i] == ctxErr {
			vAssert(!ownedAtReturn[i], "wait/context-error-returns-without-the-lock")
		}
	}
	want := m
	if m == 0 || m > k {
		want = k
	}
	if earlier == 2 {
		want = 1 // only the waiters already inside Wait are owed a wakeup: at least one was
	}
	if cancelOne == 0 {
		vAssert(nWoke >= want, "signal/wakes-at-least-min-k-m")
		if vNative() && k == 2 && m == 2 && earlier == 0 {
			vAssert(!vAmplifySignalWindow(), "signal/wakes-at-least-min-k-m")
		}
	} else {
		// waiter 0 may take either exit, but it is never parked once its context is cancelled,
		// and if it reports the context error the wakeups must have reached the others
		vAssert(res[0] != pending, "wait/cancelled-waiter-returns-promptly")
		others := nWoke
		if res[0] == woke {
			others--
		}
		wantOthers := want
		if wantOthers > k-1 {
			wantOthers = k - 1
		}
		if res[0] == ctxErr {
			vAssert(others >= wantOthers, "wait/cancelled-waiter-does-not-swallow-a-wakeup")
		} else {
			vAssert(nWoke >= want, "signal/wakes-at-least-min-k-m")
		}
	}
	vCover("cond-terminal")
}

// VerifCondRounds: what a first round leaves behind must not cost a later waiter its wakeup.
// Round 1: one waiter whose context is cancelled at an arbitrary moment (or has expired before the
// call), and one Signal or Broadcast issued at an arbitrary moment once that waiter has released
// the lock - so the wakeup races the cancellation in every order. When the waiter has come back
// (either way), round 2: a fresh waiter enters Wait, and once it has released the lock it gets one
// Signal or one Broadcast. It must wake, holding the lock.
// args: round-1 wakeup (0 Signal, 1 Broadcast, 2 none), round-1 cancellation (1 arbitrary moment, 2 expired before Wait),
//       round-2 wakeup (0 Signal, 1 Broadcast)
//verif:case C16 quick VerifCondRounds 0..2 1..2 0..1
func VerifCondRounds(first int, cancelKind int, second int) {
	L := &vLocker{owner: -1}
	c := NewContextCond(L)
	ctx, cancel := context.WithCancel(context.Background())
	if cancelKind == 2 {
		cancel()
	}
	done1, gid1 := false, -1
	go func() {
		me := vGoroutineID()
		vAtomic(func() { gid1 = me })
		L.Lock()
		err := c.Wait(ctx)
		if err == nil {
			L.Unlock()
		}
		vAtomic(func() { done1 = true })
	}()
	vAwait(func() bool { return done1 || (gid1 >= 0 && L.released[gid1]) })
	if cancelKind == 1 {
		go func() { cancel() }()
	}
	switch first {
	case 0:
		c.Signal()
	case 1:
		c.Broadcast()
	}
	if first == 2 && cancelKind == 1 {
		cancel() // nobody else will end round 1
	}
	vAwait(func() bool { return done1 })
	// round 2
	woke2, owned2, gid2 := false, false, -1
	go func() {
		me := vGoroutineID()
		vAtomic(func() { gid2 = me })
		L.Lock()
		err := c.Wait(context.Background())
		vAtomic(func() {
			woke2 = err == nil
			owned2 = L.owner == me
		})
		if err == nil {
			L.Unlock()
		}
	}()
	vAwait(func() bool { return gid2 >= 0 && L.released[gid2] })
	if second == 0 {
		c.Signal()
	} else {
		c.Broadcast()
	}
	vQuiesce()
	vAssert(woke2, "rounds/later-waiter-is-woken-whatever-the-earlier-round-left-behind")
	vAssert(!woke2 || owned2, "wait/nil-return-holds-the-lock")
	vCover("cond-rounds")
}
