package parallel

import (
	"context"
	"errors"

	"github.com/bradenaw/juniper/stream"
)

//verif:pkg ./parallel
// VerifMapIterator args: items L, parallelism, bufferSize
//verif:case C14 quick VerifMapIterator 0..2 1 0..1
//verif:case C14 quick VerifMapIterator 1..2 2 0
//verif:case C14 quick VerifMapIterator 1 -1..0 -1..0
//verif:case C14 thorough VerifMapIterator 3 1..2 0..2
//verif:case C14 thorough VerifMapIterator 4 2 0
//verif:case C14 thorough VerifMapIterator 2 -1 0
// VerifMapStream args: items L, parallelism, bufferSize, fault (0 none, 1 source error at symbolic position,
//   2 f fails on a symbolic item, 3 consumer closes early after a symbolic number of results, 4 one Next with an expired context,
//   5 the consumer's per-call context expires while f is working on a symbolic item)
//verif:case C14,C08,C09 quick VerifMapStream 0..1 1 0..1 0..4
//verif:case C14,C08,C09 quick VerifMapStream 2 1 0 0,2,3
//verif:case C14,C08,C09 quick VerifMapStream 1 2 0 0,2
//verif:case C14,C08,C09 quick VerifMapStream 1 -1..0 -1..0 0
//verif:case C14,C08,C09 quick VerifMapStream 1 1 0 5
//verif:case C14,C08,C09 quick VerifMapStream 2 1 0 5 @preempt=2
//verif:case C14,C08,C09 quick VerifMapStream 1 2 0 5 @preempt=2
//verif:case C14,C08,C09 thorough VerifMapStream 2 2 0 5 @preempt=2
//verif:case C14,C08,C09 thorough VerifMapStream 2 1 0..1 1,4
//verif:case C14,C08,C09 thorough VerifMapStream 1 2 0 1,3,4
//verif:case C14,C08,C09 thorough VerifMapStream 3 1 0 0,2

type vCountIter struct {
	n       int
	pos     int
	pulled  int
	yielded *int
	inNext  *bool // the consumer is inside Next: the item it is about to return already gave up its slot
	limit   int
	over    bool
}

func vSlack(inNext *bool) int {
	if inNext != nil && *inNext {
		return 1
	}
	return 0
}

func (s *vCountIter) Next() (int, bool) {
	var v int
	ok := false
	vAtomic(func() {
		if s.pos < s.n {
			v, ok = s.pos, true
			s.pos++
			s.pulled++
			if s.pulled-*s.yielded > s.limit+vSlack(s.inNext) {
				s.over = true
			}
		}
	})
	return v, ok
}

// VerifMapIterator: ordered results, exactly once, no deadlock, bounded read-ahead.
func VerifMapIterator(L int, par int, buf int) {
	yielded := 0
	effPar := par
	if par <= 0 {
		effPar = 2
	}
	b := buf
	if b < 0 {
		b = 0
	}
	inNext := true // the consumer is always inside (or about to re-enter) Next: one item may be in the act of being returned
	src := &vCountIter{n: L, yielded: &yielded, inNext: &inNext, limit: b + effPar + 1} // the stated bound, with the buffer size as given
	it := MapIterator[int, int](src, par, buf, func(x int) int {
		return x*2 + 1 // (workers' sends are scheduling points: later items can finish first)
	})
	for k := 0; k < L; k++ {
		v, ok := it.Next()
		vAtomic(func() { yielded++ })
		vAssert(ok, "mapiterator/yields-every-item")
		vAssert(v == k*2+1, "mapiterator/in-source-order-each-once")
	}
	_, ok := it.Next()
	vAssert(!ok, "mapiterator/ends-after-the-last-item")
	vAssert(!src.over, "mapiterator/read-ahead-bounded-by-buffer-plus-parallelism-plus-one")
	vQuiesce()
	vAssert(vBlockedCount() == 0, "mapiterator/no-goroutine-left")
	vCover("mapiterator")
}

type vStreamSrc struct {
	n        int
	pos      int
	errPos   int
	E        error
	closes   int
	afterClose int
	pulled   int
	yielded  *int
	inNext   *bool
	limit    int
	over     bool
}

func (s *vStreamSrc) Next(ctx context.Context) (int, error) {
	var v int
	var err error
	vAtomic(func() {
		if s.closes > 0 {
			s.afterClose++
		}
		switch {
		case ctx.Err() != nil:
			err = ctx.Err()
		case s.errPos >= 0 && s.pos >= s.errPos:
			err = s.E
		case s.pos >= s.n:
			err = stream.End
		default:
			v = s.pos
			s.pos++
			s.pulled++
			if s.pulled-*s.yielded > s.limit+vSlack(s.inNext) {
				s.over = true
			}
		}
	})
	return v, err
}

func (s *vStreamSrc) Close() {
	vWindow() // native replay: a source whose Close takes a while (is it waited for?)
	vAtomic(func() { s.closes++ })
}

type vExpired struct{ context.Context }

var vErrExpired = errors.New("expired")

func (vExpired) Err() error            { return vErrExpired }
func (vExpired) Done() <-chan struct{} { c := make(chan struct{}); close(c); return c }

// VerifMapStream
func VerifMapStream(L int, par int, buf int, fault int) {
	yielded := 0
	Esrc := errors.New("source error")
	Ef := errors.New("f error")
	effPar := par
	if par <= 0 {
		effPar = 2 // GOMAXPROCS is at most 2 in the model
	}
	b := buf
	if b < 0 {
		b = 0
	}
	inNext := true // see VerifMapIterator
	src := &vStreamSrc{n: L, errPos: -1, E: Esrc, yielded: &yielded, inNext: &inNext, limit: b + effPar + 1}
	failItem := -1
	closeAfter := -1
	badCall := -1
	switch fault {
	case 1:
		p := vNondetInt("srcErrPos")
		vAssume(vAnd(0 <= p, p <= L))
		src.errPos = vConcretize(p)
	case 2:
		q := vNondetInt("failItem")
		vAssume(vAnd(0 <= q, q < L))
		if L == 0 {
			return
		}
		failItem = vConcretize(q)
	case 3:
		j := vNondetInt("closeAfter")
		vAssume(vAnd(0 <= j, j <= L))
		closeAfter = vConcretize(j)
	case 4:
		c := vNondetInt("badCall")
		vAssume(vAnd(0 <= c, c <= L))
		badCall = vConcretize(c)
	}
	ctx := context.Background()
	// fault 5: the consumer's per-call context expires WHILE f is working on item cancelItem (f
	// honours the context it is handed, which is the library's, not the consumer's)
	cancelItem := -1
	cctx, cancelConsumer := context.WithCancel(ctx)
	consumerCancelled := false
	if fault == 5 {
		q := vNondetInt("cancelItem")
		vAssume(vAnd(0 <= q, q < L))
		if L == 0 {
			return
		}
		cancelItem = vConcretize(q)
	}
	out := MapStream[int, int](ctx, src, par, buf, func(fctx context.Context, x int) (int, error) {
		if x == failItem {
			return 0, Ef
		}
		if x == cancelItem {
			vAtomic(func() { consumerCancelled = true })
			cancelConsumer()
			if err := fctx.Err(); err != nil {
				return 0, err
			}
		}
		return x*2 + 1, nil
	})
	firstBad := L // index of the first item that cannot be produced
	if src.errPos >= 0 {
		firstBad = src.errPos
	}
	if failItem >= 0 {
		firstBad = failItem
	}
	k := 0
	ended := false
	for call := 0; call < L+3 && !ended; call++ {
		if closeAfter >= 0 && k >= closeAfter {
			break
		}
		var c context.Context = ctx
		if call == badCall {
			c = vExpired{ctx}
			vWindow() // native replay: let a result arrive first, so that the expired call meets it
		}
		usedCancellable := false
		if fault == 5 {
			vAtomic(func() { usedCancellable = !consumerCancelled })
			if usedCancellable {
				c = cctx
			}
		}
		v, err := out.Next(c)
		if err == nil {
			vAtomic(func() { yielded++ })
		}
		switch {
		case fault == 5 && err == context.Canceled && usedCancellable:
			// the consumer's own context ended during the call: costs nothing (read on)
			vAssert(consumerCancelled, "C08:mapstream/no-error-without-a-failure")
		case err == nil:
			vAssert(v == k*2+1, "C14:mapstream/in-source-order-each-once")
			vAssert(k < firstBad, "C08:mapstream/no-result-at-or-beyond-the-failed-item")
			k++
		case err == stream.End:
			vAssert(fault != 1 && fault != 2, "C08:mapstream/failure-not-replaced-by-end")
			vAssert(k == L, "C14:mapstream/end-only-after-every-item")
			ended = true
		case err == vErrExpired && call == badCall:
			// an expired per-call context costs nothing
		default:
			switch fault {
			case 1:
				vAssert(err == Esrc, "C08:mapstream/reports-the-source-error-itself")
			case 2:
				vAssert(err == Ef, "C08:mapstream/reports-the-error-f-returned")
			default:
				vAssert(false, "C08:mapstream/no-error-without-a-failure")
			}
			vAssert(k <= firstBad, "C08:mapstream/failure-after-at-most-the-preceding-results")
			ended = true
		}
	}
	if closeAfter < 0 {
		vAssert(ended, "C14:mapstream/finishes")
	}
	out.Close()
	atReturn := 0
	vAtomic(func() { atReturn = src.closes })
	vAssert(atReturn == 1, "C09+C14:mapstream/source-closed-by-the-time-close-returns")
	vAssert(!src.over, "C14:mapstream/read-ahead-bounded-by-buffer-plus-parallelism-plus-one")
	vQuiesce()
	vAssert(vBlockedCount() == 0, "C14:mapstream/close-returns-after-workers-stopped")
	vAssert(src.closes == 1, "C09:mapstream/source-closed-exactly-once")
	vAssert(src.afterClose == 0, "C09:mapstream/no-next-after-close")
	vCover("mapstream")
}

// VerifMapStraggler: the latency pattern behind the read-ahead bound. The first item's f does not
// finish until it is released, every later item is instantaneous, and the consumer is already
// waiting in Next: with nothing yielded, the source must stop being read at
// buffer + parallelism + 1 items. (What happens after the release is VerifMapIterator's and
// VerifMapStream's business: the path ends at the quiescent point.)
// args: kind (0 MapIterator, 1 MapStream), items L, parallelism, bufferSize
//verif:case C14 quick VerifMapStraggler 0..1 6 2 2
//verif:case C14 thorough VerifMapStraggler 0..1 7 2 3
//verif:case C14 thorough VerifMapStraggler 0..1 7 3 0
func VerifMapStraggler(kind int, L int, par int, buf int) {
	yielded := 0
	b := buf
	if b < par {
		b = par // the documented effective buffer size
	}
	release := make(chan struct{})
	got := 0
	pulled, over := 0, false
	if kind == 0 {
		src := &vCountIter{n: L, yielded: &yielded, limit: b + par + 1}
		it := MapIterator[int, int](src, par, buf, func(x int) int {
			if x == 0 {
				<-release
			}
			return x*2 + 1
		})
		go func() {
			for k := 0; k < L; k++ {
				it.Next()
				vAtomic(func() {
					yielded++
					got++
				})
			}
		}()
		vQuiesce()
		pulled, over = src.pulled, src.over
	} else {
		src := &vStreamSrc{n: L, errPos: -1, yielded: &yielded, limit: b + par + 1}
		ctx := context.Background()
		out := MapStream[int, int](ctx, src, par, buf, func(ctx context.Context, x int) (int, error) {
			if x == 0 {
				<-release
			}
			return x*2 + 1, nil
		})
		go func() {
			for k := 0; k < L; k++ {
				out.Next(ctx)
				vAtomic(func() {
					yielded++
					got++
				})
			}
		}()
		vQuiesce()
		pulled, over = src.pulled, src.over
	}
	vAssert(got == 0, "mapstraggler/nothing-yielded-before-the-first-item")
	vAssert(!over && pulled <= b+par+1, "mapstraggler/read-ahead-stops-at-buffer-plus-parallelism-plus-one")
	vCover("mapstraggler")
	if vNative() {
		close(release) // let the native goroutines drain
	}
}
