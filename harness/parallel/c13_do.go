package parallel

import (
	"context"
	"errors"
	"runtime"
)

// vTwoProcs: natively, run the harness with GOMAXPROCS = 2 (the upper end of the model's range), so
// that "parallelism <= 0 means GOMAXPROCS" is observable on a machine with more CPUs. Returns the
// function that restores the previous value. Symbolically a no-op.
func vTwoProcs() func() {
	if !vNative() {
		return func() {}
	}
	prev := runtime.GOMAXPROCS(2)
	return func() { runtime.GOMAXPROCS(prev) }
}

//verif:pkg ./parallel
// VerifDo args: n, parallelism
//verif:case C13 quick VerifDo 0..2 -1..3
//verif:case C13 quick VerifDo 3 -1..2
//verif:case C13 thorough VerifDo 3 3
//verif:case C13 thorough VerifDo 4 1..2
// VerifDoContext args: n, parallelism, failure mask (bit i: call i fails), context mode
//   (0 live, 1 already cancelled, 2 cancelled by another goroutine at an arbitrary moment)
//verif:case C13 quick VerifDoContext 0..2 -1..2 0..3 0
//verif:case C13 quick VerifDoContext 3 1..2 0..2 0
//verif:case C13 quick VerifDoContext 2 1..2 0 1..2
//verif:case C13 thorough VerifDoContext 3 2..3 0..7 0..1
//verif:case C13 thorough VerifDoContext 2 -1..2 0..3 2
//verif:case C13 quick VerifMap 0..2 1..2
//verif:case C13 quick VerifMap 3 1
//verif:case C13 thorough VerifMap 3 -1..3

type vGauge struct {
	calls   []int
	running int
	maxRun  int
	total   int
}

func (g *vGauge) enter(i int) {
	vAtomic(func() {
		g.calls[i]++
		g.total++
		g.running++
		if g.running > g.maxRun {
			g.maxRun = g.running
		}
	})
}

func (g *vGauge) leave() { vAtomic(func() { g.running-- }) }

// VerifDo: exactly once per index, never more than the effective parallelism at a time,
// returns only after every call finished.
func VerifDo(n int, par int) {
	defer vTwoProcs()()
	g := &vGauge{calls: make([]int, n)}
	Do(par, n, func(i int) {
		g.enter(i)
		vWindow() // natively the call takes a while, so that calls in flight overlap
		g.leave()
	})
	vAssert(g.running == 0, "do/barrier-all-calls-finished")
	for i := range g.calls {
		vAssert(g.calls[i] == 1, "do/exactly-once")
	}
	limit := par
	if par <= 0 {
		limit = 2 // GOMAXPROCS is an arbitrary value in [1, 2] in the model
	}
	vAssert(g.maxRun <= limit, "do/concurrency-bound")
	before := g.total
	vQuiesce()
	vAssert(g.total == before && vBlockedCount() == 0, "do/nothing-runs-after-return")
	vCover("do")
}

var vHammeredDo int

// VerifDoContext: the error contract.
func VerifDoContext(n int, par int, failMask int, ctxMode int) {
	defer vTwoProcs()()
	g := &vGauge{calls: make([]int, n)}
	errs := make([]error, n)
	for i := range errs {
		errs[i] = errors.New("E")
	}
	parent, cancel := context.WithCancel(context.Background())
	if ctxMode == 1 {
		cancel()
	}
	if ctxMode == 2 {
		go func() { cancel() }()
	}
	startedCancelled := 0
	parentLiveAtStart := 0
	failedCalled := make([]bool, n)
	var derived context.Context
	err := DoContext(parent, par, n, func(ctx context.Context, i int) error {
		vAtomic(func() {
			derived = ctx
			if ctx.Err() != nil {
				startedCancelled++
				if parent.Err() == nil {
					parentLiveAtStart++
				}
			}
		})
		g.enter(i)
		vWindow()
		g.leave()
		if failMask&(1<<uint(i)) != 0 {
			vAtomic(func() { failedCalled[i] = true })
			return errs[i]
		}
		return nil
	})
	vAssert(g.running == 0, "docontext/barrier-all-calls-finished")
	for i := range g.calls {
		vAssert(g.calls[i] <= 1, "docontext/at-most-once")
	}
	eff := par
	if par <= 0 {
		eff = 2
	}
	if eff > n {
		eff = n
	}
	vAssert(g.maxRun <= eff || (eff == 0 && g.maxRun == 0), "docontext/concurrency-bound")
	anyFail := failMask&((1<<uint(n))-1) != 0
	if !anyFail && ctxMode == 0 {
		vAssert(err == nil, "docontext/no-error-when-nothing-fails")
		for i := range g.calls {
			vAssert(g.calls[i] == 1, "docontext/exactly-once-when-nothing-fails")
		}
	}
	if err == nil {
		// a nil result claims the whole job was done
		for i := range g.calls {
			vAssert(g.calls[i] == 1, "docontext/nil-error-only-if-every-index-ran")
		}
	}
	if err != nil {
		ok := false
		for i := range errs {
			if failedCalled[i] && err == errs[i] {
				ok = true
			}
		}
		if ctxMode != 0 && err == context.Canceled {
			ok = true
		}
		vAssert(ok, "docontext/error-is-one-a-call-returned-or-the-callers-context-error")
		if derived != nil && derived != parent {
			vAssert(derived.Err() != nil, "docontext/derived-context-cancelled-on-failure")
		}
	} else if anyFail && ctxMode == 0 {
		// with a live context a failing call that ran must surface
		for i := range errs {
			vAssert(!failedCalled[i], "docontext/failure-is-reported")
		}
	}
	// while the caller's context is live, at most parallelism-1 calls begin with a cancelled context
	if eff >= 1 {
		vAssert(parentLiveAtStart <= eff-1 || eff == 1 && parentLiveAtStart == 0, "docontext/few-calls-start-cancelled")
	}
	before := g.total
	vQuiesce()
	vAssert(g.total == before, "docontext/no-call-starts-after-return")
	cancel()
	if vNative() && anyFail && ctxMode == 0 && vHammeredDo < 4 {
		vHammeredDo++ // at most a few times per replay process
		// native replay only: the window between a failing call and the errgroup recording its
		// error is a few nanoseconds; hammer it (many workers, many no-op calls, one failure)
		runtime.GOMAXPROCS(runtime.NumCPU())
		for trial := 0; trial < 300; trial++ {
			E := errors.New("E")
			got := DoContext(context.Background(), 8, 1<<16, func(ctx context.Context, i int) error {
				if i == 1000 {
					return E
				}
				return nil
			})
			if got != E {
				vAssert(false, "docontext/error-is-one-a-call-returned-or-the-callers-context-error")
				break
			}
		}
	}
	vCover("docontext")
}

// VerifMap: result i at position i (Map and MapContext).
func VerifMap(n int, par int) {
	in := make([]int, n)
	for i := range in {
		in[i] = vNondetInt("in")
	}
	out := Map(par, in, func(x int) int { vYield(); return x*2 + 1 })
	vAssert(len(out) == n, "map/len")
	for i := 0; i < n && i < len(out); i++ {
		vAssert(out[i] == in[i]*2+1, "map/positional-results")
	}
	out2, err := MapContext(context.Background(), par, in, func(ctx context.Context, x int) (int, error) {
		vYield()
		return x + 7, nil
	})
	vAssert(err == nil && len(out2) == n, "mapcontext/len")
	for i := 0; i < n && i < len(out2); i++ {
		vAssert(out2[i] == in[i]+7, "mapcontext/positional-results")
	}
	vCover("map")
}

// VerifMapContextFail: the error contract of MapContext - a failing call is reported, and the
// context the calls were given (for parallelism > 1 a context of the library's own) is cancelled
// by then.
//verif:case C13 quick VerifMapContextFail 1..2 -1..2
//verif:case C13 thorough VerifMapContextFail 3 2..3
func VerifMapContextFail(n int, par int) {
	in := make([]int, n)
	E := errors.New("E")
	parent := context.Background()
	var given context.Context
	_, err := MapContext(parent, par, in, func(ctx context.Context, x int) (int, error) {
		vAtomic(func() { given = ctx })
		vYield()
		return 0, E
	})
	vAssert(err == E, "mapcontext/reports-the-error-a-call-returned")
	// (with parallelism <= 0 the effective parallelism is GOMAXPROCS, possibly 1: then the calls
	// run on the caller's goroutine with the caller's context)
	if par > 1 && n > 1 {
		vAssert(given != nil && given != parent && given.Err() != nil, "mapcontext/calls-get-a-context-that-is-cancelled-on-failure")
	}
	vCover("mapcontext-fail")
}
