package xerrors

import "errors"

//verif:pkg ./xerrors
//verif:case C19 quick VerifWithStack 0..5 0..3

type vErrCode struct{ code int }

func (e vErrCode) Error() string { return "code" }

type vErrWrap struct{ inner error }

func (e *vErrWrap) Error() string { return "wrap" }
func (e *vErrWrap) Unwrap() error { return e.inner }

type vErrIs struct{ k int }

func (e vErrIs) Error() string { return "is" }
func (e vErrIs) Is(t error) bool {
	o, ok := t.(vErrIs)
	return ok && o.k>>1 == e.k>>1
}

// VerifWithStack: nil-preserving, idempotent, transparent to Unwrap and Is, for error chains of
// depth <= 3 (shape) against targets of several kinds.
func VerifWithStack(shape int, target int) {
	vAssert(WithStack(nil) == nil, "withstack/nil-preserving")
	base := errors.New("base")
	other := errors.New("other")
	c1 := vNondetInt("c1")
	c2 := vNondetInt("c2")
	var e error
	switch shape {
	case 0:
		e = base
	case 1:
		e = vErrCode{c1}
	case 2:
		e = &vErrWrap{base}
	case 3:
		e = &vErrWrap{&vErrWrap{vErrCode{c1}}}
	case 4:
		e = vErrIs{c1}
	case 5:
		e = &vErrWrap{vErrIs{c1}}
	}
	var t error
	switch target {
	case 0:
		t = base
	case 1:
		t = other
	case 2:
		t = vErrCode{c2}
	case 3:
		t = vErrIs{c2}
	}
	w := WithStack(e)
	vAssert(w != nil, "withstack/non-nil")
	vAssert(errors.Unwrap(w) == e, "withstack/unwrap-transparent")
	vAssert(errors.Is(w, t) == errors.Is(e, t), "withstack/is-transparent")
	w2 := WithStack(w)
	// idempotent: a second WithStack does not wrap again
	vAssert(errors.Unwrap(w2) == e, "withstack/idempotent")
	vAssert(errors.Is(w2, t) == errors.Is(e, t), "withstack/is-transparent-twice")
	// wrapping something that has a stack further down the chain also returns its argument
	mid := &vErrWrap{w}
	w3 := WithStack(mid)
	vAssert(w3 == error(mid), "withstack/already-has-stack-in-chain")
	vCover("withstack")
}
