package xrand

import (
	"context"

	"github.com/bradenaw/juniper/iterator"
	"github.com/bradenaw/juniper/stream"
)

//verif:pkg ./xmath/xrand
//verif:case C19 quick VerifSample 0..3 1..3 0..3 @repeat=300
//verif:case C19 thorough VerifSample 4 1..3 0..3 @repeat=300
//verif:case C19 quick VerifShuffle 0..4 @repeat=300

// VerifSample: Sample / SampleSlice / SampleIterator / SampleStream return exactly min(k, n)
// items taken from pairwise distinct positions of the input. rand is an arbitrary-value stub,
// floats are opaque: the geometric skip is an arbitrary non-negative integer (or Inf/NaN).
func VerifSample(n int, k int, which int) {
	want := k
	if n < k {
		want = n
	}
	var pos []int
	switch which {
	case 0:
		pos = Sample(n, k)
	case 1, 2, 3:
		a := make([]int, n)
		for i := range a {
			a[i] = i // items are their positions
		}
		switch which {
		case 1:
			pos = SampleSlice(a, k)
		case 2:
			pos = SampleIterator(iterator.Slice(a), k)
		case 3:
			var err error
			pos, err = SampleStream(context.Background(), stream.FromIterator(iterator.Slice(a)), k)
			vAssert(err == nil, "sample/stream-no-error")
		}
	}
	vAssert(len(pos) == want, "sample/count-is-min-k-n")
	for i := range pos {
		vAssert(vAnd(0 <= pos[i], pos[i] < n), "sample/positions-in-range")
		for j := 0; j < i; j++ {
			vAssert(pos[i] != pos[j], "sample/positions-distinct")
		}
	}
	vCover("sample")
}

// VerifShuffle: the result is a permutation of the input.
func VerifShuffle(n int) {
	a := make([]int, n)
	for i := range a {
		a[i] = i
	}
	Shuffle(a)
	for v := 0; v < n; v++ {
		cnt := 0
		for i := range a {
			cnt += vIte(a[i] == v, 1, 0)
		}
		vAssert(cnt == 1, "shuffle/permutation")
	}
	vCover("shuffle")
}
