package xrand

import (
	"context"
	"errors"

	"github.com/bradenaw/juniper/iterator"
	"github.com/bradenaw/juniper/stream"
)

//verif:pkg ./xmath/xrand
//verif:case C19 quick VerifSample 0..3 1..3 0..3 @repeat=300
//verif:case C19 thorough VerifSample 4 1..3 0..3 @repeat=300
//verif:case C19 quick VerifShuffle 0..4 @repeat=300

// VerifSample: Sample / SampleSlice / SampleIterator / SampleStream return exactly min(k, n)
// items taken from pairwise distinct positions of the input. rand is an arbitrary-value stub,
// floats are opaque: the geometric skip is an arbitrary non-negative integer (or Inf/NaN).
func VerifSample(n int, k int, which int) {
	want := k
	if n < k {
		want = n
	}
	var pos []int
	switch which {
	case 0:
		pos = Sample(n, k)
	case 1, 2, 3:
		a := make([]int, n)
		for i := range a {
			a[i] = i // items are their positions
		}
		switch which {
		case 1:
			pos = SampleSlice(a, k)
		case 2:
			pos = SampleIterator(iterator.Slice(a), k)
		case 3:
			var err error
			pos, err = SampleStream(context.Background(), stream.FromIterator(iterator.Slice(a)), k)
			vAssert(err == nil, "sample/stream-no-error")
		}
	}
	vAssert(len(pos) == want, "sample/count-is-min-k-n")
	for i := range pos {
		vAssert(vAnd(0 <= pos[i], pos[i] < n), "sample/positions-in-range")
		for j := 0; j < i; j++ {
			vAssert(pos[i] != pos[j], "sample/positions-distinct")
		}
	}
	vCover("sample")
}

// VerifShuffle: the result is a permutation of the input.
func VerifShuffle(n int) {
	a := make([]int, n)
	for i := range a {
		a[i] = i
	}
	Shuffle(a)
	for v := 0; v < n; v++ {
		cnt := 0
		for i := range a {
			cnt += vIte(a[i] == v, 1, 0)
		}
		vAssert(cnt == 1, "shuffle/permutation")
	}
	vCover("shuffle")
}

//verif:case C08,C09 quick VerifSampleStreamOwnership 0..3 1..2 0..1 0
//verif:case C08,C09 quick VerifSampleStreamOwnership 0..3 0..2 0..1 1

type vSampleSrc struct {
	n, pos     int
	errPos     int
	E          error
	closes     int
	afterClose int
}

func (s *vSampleSrc) Next(ctx context.Context) (int, error) {
	if s.closes > 0 {
		s.afterClose++
	}
	if s.errPos >= 0 && s.pos >= s.errPos {
		return 0, s.E
	}
	if s.pos >= s.n {
		return 0, stream.End
	}
	s.pos++
	return s.pos - 1, nil
}
func (s *vSampleSrc) Close() { s.closes++ }

// VerifSampleStreamOwnership: SampleStream closes the stream it is given exactly once, whether
// it ends normally or fails, and reports the source's error itself.
// vFixedFloats: a random source for the in-package sampler whose floats are concrete (so that
// the reservoir arithmetic - including the degenerate k == 0, where it relies on
// exp(log(u)/0) == 0 - is computed exactly) and whose integer draws stay symbolic.
type vFixedFloats struct{ i *int }

func (r vFixedFloats) Float64() float64 {
	*r.i++
	return []float64{0.5, 0.25, 0.75, 0.125, 0.9, 0.01}[*r.i%6]
}
func (r vFixedFloats) Intn(n int) int {
	x := vNondetInt("intn")
	vAssume(vAnd(0 <= x, x < n))
	return x
}
func (r vFixedFloats) Shuffle(n int, swap func(int, int)) {}

func VerifSampleStreamOwnership(n int, k int, faulty int, rnd int) {
	E := errors.New("E")
	src := &vSampleSrc{n: n, errPos: -1, E: E}
	if faulty == 1 {
		p := vNondetInt("faultPos")
		vAssume(vAnd(0 <= p, p <= n))
		src.errPos = vConcretize(p)
	}
	var out []int
	var err error
	if rnd == 1 {
		out, err = rSampleStream[int](context.Background(), vFixedFloats{new(int)}, src, k)
	} else {
		out, err = SampleStream[int](context.Background(), src, k)
	}
	if faulty == 1 {
		vAssert(err == E, "C08:samplestream/returns-the-source-error-itself")
	} else {
		want := k
		if n < k {
			want = n
		}
		vAssert(err == nil && len(out) == want, "C08:samplestream/no-error")
	}
	vAssert(src.closes == 1, "C09:samplestream/source-closed-exactly-once")
	vAssert(src.afterClose == 0, "C09:samplestream/no-next-after-close")
	vCover("samplestream-ownership")
}
