package xmath

//verif:pkg ./xmath
//verif:case C19 quick VerifAbs 0..4
//verif:case C19 quick VerifMinMaxClamp 0..2

// VerifAbs: at every width Abs panics iff x is the minimum value, else returns |x|.
func VerifAbs(which int) {
	switch which {
	case 0:
		x := vNondet[int8]("x")
		var r int8
		p := vTry(func() { r = Abs(x) })
		vAssert(p == (x == -128), "abs/int8/panics-iff-min")
		vAssert(vImplies(!p, vAnd(r >= 0, vOr(r == x, r == -x))), "abs/int8/value")
	case 1:
		x := vNondet[int16]("x")
		var r int16
		p := vTry(func() { r = Abs(x) })
		vAssert(p == (x == -32768), "abs/int16/panics-iff-min")
		vAssert(vImplies(!p, vAnd(r >= 0, vOr(r == x, r == -x))), "abs/int16/value")
	case 2:
		x := vNondet[int32]("x")
		var r int32
		p := vTry(func() { r = Abs(x) })
		vAssert(p == (x == -2147483648), "abs/int32/panics-iff-min")
		vAssert(vImplies(!p, vAnd(r >= 0, vOr(r == x, r == -x))), "abs/int32/value")
	case 3:
		x := vNondet[int64]("x")
		var r int64
		p := vTry(func() { r = Abs(x) })
		vAssert(p == (x == -9223372036854775808), "abs/int64/panics-iff-min")
		vAssert(vImplies(!p, vAnd(r >= 0, vOr(r == x, r == -x))), "abs/int64/value")
	case 4:
		x := vNondet[int]("x")
		var r int
		p := vTry(func() { r = Abs(x) })
		vAssert(p == (x == -9223372036854775808), "abs/int/panics-iff-min")
		vAssert(vImplies(!p, vAnd(r >= 0, vOr(r == x, r == -x))), "abs/int/value")
	}
	vCover("abs")
}

// VerifMinMaxClamp on signed, unsigned and narrow integers.
func VerifMinMaxClamp(which int) {
	switch which {
	case 0:
		a, b, x := vNondet[int]("a"), vNondet[int]("b"), vNondet[int]("x")
		vAssert(vAnd(Min(a, b) <= a, Min(a, b) <= b), "min/lower-bound")
		vAssert(vOr(Min(a, b) == a, Min(a, b) == b), "min/is-argument")
		vAssert(vAnd(Max(a, b) >= a, Max(a, b) >= b), "max/upper-bound")
		vAssert(vOr(Max(a, b) == a, Max(a, b) == b), "max/is-argument")
		vAssume(a <= b)
		r := Clamp(x, a, b)
		vAssert(vAnd(a <= r, r <= b), "clamp/in-range")
		vAssert(vImplies(vAnd(a <= x, x <= b), r == x), "clamp/identity-inside")
		vAssert(vImplies(x < a, r == a), "clamp/below")
		vAssert(vImplies(x > b, r == b), "clamp/above")
	case 1:
		a, b, x := vNondet[uint64]("a"), vNondet[uint64]("b"), vNondet[uint64]("x")
		vAssert(vAnd(Min(a, b) <= a, Min(a, b) <= b), "min/u64/lower-bound")
		vAssert(vAnd(Max(a, b) >= a, Max(a, b) >= b), "max/u64/upper-bound")
		vAssume(a <= b)
		r := Clamp(x, a, b)
		vAssert(vAnd(a <= r, r <= b), "clamp/u64/in-range")
		vAssert(vImplies(vAnd(a <= x, x <= b), r == x), "clamp/u64/identity-inside")
	case 2:
		a, b, x := vNondet[int8]("a"), vNondet[int8]("b"), vNondet[int8]("x")
		vAssert(vAnd(Min(a, b) <= a, Min(a, b) <= b), "min/i8/lower-bound")
		vAssert(vAnd(Max(a, b) >= a, Max(a, b) >= b), "max/i8/upper-bound")
		vAssume(a <= b)
		r := Clamp(x, a, b)
		vAssert(vAnd(a <= r, r <= b), "clamp/i8/in-range")
		vAssert(vImplies(vAnd(a <= x, x <= b), r == x), "clamp/i8/identity-inside")
	}
	vCover("minmaxclamp")
}
