package iterator

import "github.com/bradenaw/juniper/xslices"

//verif:pkg ./iterator
//verif:case C07 quick VerifIterFlat 0..9 0..4
//verif:case C07 thorough VerifIterFlat 0..9 5
//verif:case C07 quick VerifIterNested 0..2 0..4
//verif:case C07 thorough VerifIterNested 0..2 5
//verif:case C07 quick VerifIterReducers 0..6 0..4
//verif:case C07 thorough VerifIterReducers 0..6 5

// counting source: pulls = Next calls that handed over an item, plus one for the call that
// discovered the end.
type vIt struct {
	items   []int
	pos     int
	pulls   int
	endSeen bool
}

func (s *vIt) Next() (int, bool) {
	if s.pos >= len(s.items) {
		if !s.endSeen {
			s.endSeen = true
			s.pulls++
		}
		return 0, false
	}
	s.pulls++
	v := s.items[s.pos]
	s.pos++
	return v, true
}

func vOdd(x int) bool   { return x&1 == 1 }
func vSmall(x int) bool { return x < 100 }

func vItems(L int) []int {
	items := make([]int, L)
	for i := range items {
		items[i] = vNondetInt("item")
	}
	return items
}

// VerifIterFlat: flat combinators vs. slice-level reference, laziness, sticky end.
func VerifIterFlat(which int, L int) {
	items := vItems(L)
	n := 0
	if which == 3 || which == 9 {
		n = vNondetInt("n")
		vAssume(vAnd(0 <= n, n <= L+1))
		n = vConcretize(n)
	}
	src := &vIt{items: items}
	var out Iterator[int]
	var vals, needed []int
	endNeeded := L + 1
	exact := true
	switch which {
	case 0: // Slice
		out = Slice(items)
		exact = false
		for i, x := range items {
			vals, needed = append(vals, x), append(needed, i+1)
		}
	case 1: // Filter
		out = Filter[int](src, vOdd)
		for i, x := range items {
			if vOdd(x) {
				vals, needed = append(vals, x), append(needed, i+1)
			}
		}
	case 2: // Map
		out = Map[int, int](src, func(x int) int { return x*2 + 1 })
		for i, x := range items {
			vals, needed = append(vals, x*2+1), append(needed, i+1)
		}
	case 3: // First(n)
		out = First[int](src, n)
		for i, x := range items {
			if i < n {
				vals, needed = append(vals, x), append(needed, i+1)
			}
		}
		if n <= L {
			endNeeded = n
		}
	case 4: // While
		out = While[int](src, vSmall)
		for i, x := range items {
			if !vSmall(x) {
				endNeeded = i + 1
				break
			}
			vals, needed = append(vals, x), append(needed, i+1)
		}
	case 5: // Compact (agrees with xslices.Compact)
		out = Compact[int](src)
		for i, x := range items {
			if i == 0 || items[i-1] != x {
				vals, needed = append(vals, x), append(needed, i+1)
			}
		}
		xs := xslices.Compact(items)
		vAssert(len(xs) == len(vals), "agree/compact-xslices-len")
		for i := 0; i < len(xs) && i < len(vals); i++ {
			vAssert(xs[i] == vals[i], "agree/compact-xslices-items")
		}
	case 6: // WithPeek: Peek does not consume, Next returns the peeked item
		pk := WithPeek[int](src)
		for i := 0; i < L; i++ {
			p1, ok1 := pk.Peek()
			p2, ok2 := pk.Peek()
			vAssert(vAnd(ok1, ok2), "peek/has-item")
			vAssert(vAnd(p1 == items[i], p2 == items[i]), "peek/does-not-consume")
			vAssert(src.pulls <= i+1, "lazy/peek-pulls-one")
			if i%2 == 0 {
				v, ok := pk.Next()
				vAssert(vAnd(ok, v == items[i]), "peek/next-returns-peeked")
			} else {
				pk.Next()
			}
		}
		_, okp := pk.Peek()
		vAssert(!okp, "peek/end")
		_, okn := pk.Next()
		vAssert(!okn, "peek/end-next")
		vCover("iter-peek")
		return
	case 7: // Filter(Map)
		out = Filter[int](Map[int, int](src, func(x int) int { return x + 1 }), vOdd)
		for i, x := range items {
			if vOdd(x + 1) {
				vals, needed = append(vals, x+1), append(needed, i+1)
			}
		}
	case 8: // Counter / Repeat / Empty
		c := Counter(L)
		for i := 0; i < L; i++ {
			v, ok := c.Next()
			vAssert(vAnd(ok, v == i), "counter/items")
		}
		_, ok := c.Next()
		_, ok2 := c.Next()
		vAssert(vAnd(!ok, !ok2), "counter/end-sticky")
		x := vNondetInt("x")
		r := Repeat(x, L)
		for i := 0; i < L; i++ {
			v, ok := r.Next()
			vAssert(vAnd(ok, v == x), "repeat/items")
		}
		_, ok = r.Next()
		_, ok2 = r.Next()
		vAssert(vAnd(!ok, !ok2), "repeat/end-sticky")
		_, ok = Empty[int]().Next()
		vAssert(!ok, "empty")
		_, ok = Repeat(x, -1).Next()
		vAssert(!ok, "repeat/negative-is-empty")
		vCover("iter-sources")
		return
	case 9: // First(n) of Filter
		out = First[int](Filter[int](src, vOdd), n)
		k := 0
		for i, x := range items {
			if vOdd(x) {
				if k < n {
					vals, needed = append(vals, x), append(needed, i+1)
				}
				k++
				if k == n {
					endNeeded = i + 1
				}
			}
		}
		if n == 0 {
			endNeeded = 0
		}
	}
	vAssert(src.pulls == 0, "lazy/nothing-pulled-before-first-next")
	for k := 0; k < len(vals)+3; k++ {
		v, ok := out.Next()
		if k < len(vals) {
			vAssert(ok, "output/not-fewer-than-reference")
			vAssert(v == vals[k], "output/matches-reference")
			if exact {
				vAssert(src.pulls <= needed[k], "lazy/no-more-pulls-than-needed")
			}
		} else {
			vAssert(!ok, "sticky-end/end-after-all-outputs")
			if exact {
				vAssert(src.pulls <= endNeeded, "lazy/no-more-pulls-than-needed-for-end")
			}
		}
	}
	vCover("iter-flat")
}

// VerifIterNested: Chunk, Runs, Flatten/Join (agreement with xslices.Chunk / xslices.Runs).
func VerifIterNested(which int, L int) {
	items := vItems(L)
	src := &vIt{items: items}
	switch which {
	case 0: // Chunk(c)
		c := vNondetInt("chunkSize")
		vAssume(vAnd(1 <= c, c <= L+1))
		c = vConcretize(c)
		out := Chunk[int](src, c)
		vAssert(src.pulls == 0, "lazy/nothing-pulled-before-first-next")
		ref := xslices.Chunk(items, c)
		for k := 0; k < len(ref)+2; k++ {
			ch, ok := out.Next()
			if k < len(ref) {
				vAssert(ok, "chunk/not-fewer-than-xslices")
				vAssert(len(ch) == len(ref[k]), "agree/chunk-xslices-sizes")
				for i := 0; i < len(ch) && i < len(ref[k]); i++ {
					vAssert(ch[i] == ref[k][i], "agree/chunk-xslices-items")
				}
				need := (k + 1) * c
				if need > L {
					need = L + 1
				}
				vAssert(src.pulls <= need, "lazy/chunk-pulls")
			} else {
				vAssert(!ok, "sticky-end/chunk")
			}
		}
	case 1: // Runs
		same := func(a, b int) bool { return a == b }
		out := Runs[int](src, same)
		vAssert(src.pulls == 0, "lazy/nothing-pulled-before-first-next")
		ref := xslices.Runs(items, same)
		drain := vNondetBool("drainInner")
		var prevIn Iterator[int]
		for k := 0; k < len(ref)+2; k++ {
			in, ok := out.Next()
			if k >= len(ref) {
				vAssert(!ok, "sticky-end/runs")
				continue
			}
			vAssert(ok, "runs/not-fewer-than-xslices")
			if !ok {
				return
			}
			if !drain {
				continue // abandoning an inner iterator must not derail the outer one
			}
			for i := 0; i < len(ref[k])+2; i++ {
				v, ok := in.Next()
				if i < len(ref[k]) {
					vAssert(ok, "agree/runs-xslices-sizes")
					vAssert(v == ref[k][i], "agree/runs-xslices-items")
				} else {
					vAssert(!ok, "sticky-end/runs-inner")
				}
			}
			// an earlier run that has reported its end stays ended after the outer iterator
			// moved on (and asking it again takes nothing away from the runs that follow)
			if prevIn != nil {
				_, ok := prevIn.Next()
				vAssert(!ok, "sticky-end/runs-inner-after-the-outer-moved-on")
			}
			prevIn = in
		}
	case 2: // Flatten and Join over three parts (middle one empty)
		a := L / 2
		mk := func() []Iterator[int] {
			return []Iterator[int]{&vIt{items: items[:a]}, &vIt{items: nil}, &vIt{items: items[a:]}}
		}
		for _, out := range []Iterator[int]{Flatten[int](Slice(mk())), Join[int](mk()...)} {
			for k := 0; k < L+2; k++ {
				v, ok := out.Next()
				if k < L {
					vAssert(vAnd(ok, v == items[k]), "flatten-join/items")
				} else {
					vAssert(!ok, "sticky-end/flatten-join")
				}
			}
		}
		_, ok := Join[int]().Next()
		vAssert(!ok, "join/none")
	}
	vCover("iter-nested")
}

// VerifIterReducers: Collect, Equal, Last, One, Reduce, Chan.
func VerifIterReducers(which int, L int) {
	items := vItems(L)
	src := &vIt{items: items}
	switch which {
	case 0:
		got := Collect[int](src)
		vAssert(len(got) == L, "collect/len")
		for i := 0; i < L && i < len(got); i++ {
			vAssert(got[i] == items[i], "collect/items")
		}
	case 1: // Equal over 0..3 iterators
		other := vItems(L)
		want := true
		for i := range items {
			want = vAnd(want, items[i] == other[i])
		}
		vAssert(Equal[int](Slice(items), Slice(other)) == want, "equal/two")
		vAssert(Equal[int](), "equal/none")
		vAssert(Equal[int](Slice(items)), "equal/one")
		if L > 0 {
			vAssert(!Equal[int](Slice(items), Slice(items[:L-1])), "equal/length-mismatch")
		}
		vAssert(Equal[int](Slice(items), Slice(items), Slice(items)), "equal/three-same")
		longer := append(append([]int(nil), items...), vNondetInt("extra"))
		vAssert(!Equal[int](Slice(items), Slice(items), Slice(longer)), "equal/third-longer")
		vAssert(!Equal[int](Slice(longer), Slice(longer), Slice(items)), "equal/third-shorter")
		vAssert(Equal[int](Slice(items), Slice(items), Slice(other)) == want, "equal/three-with-symbolic-third")
	case 2: // Last(n)
		n := vNondetInt("n")
		vAssume(vAnd(0 <= n, n <= L+1))
		n = vConcretize(n)
		var got []int
		p := vTry(func() { got = Last[int](src, n) })
		vAssert(!p, "last/no-panic")
		if p {
			return
		}
		want := n
		if L < n {
			want = L
		}
		vAssert(len(got) == want, "last/len")
		for i := 0; i < want && i < len(got); i++ {
			vAssert(got[i] == items[L-want+i], "last/items")
		}
		vAssert(src.pos == L, "last/consumes-input")
	case 3: // One
		got, ok := One[int](src)
		vAssert(ok == (L == 1), "one/ok-iff-single")
		if L == 1 {
			vAssert(got == items[0], "one/item")
		}
	case 4: // Reduce
		want := 7
		for _, x := range items {
			want = want*3 + x
		}
		vAssert(Reduce[int, int](src, 7, func(a, x int) int { return a*3 + x }) == want, "reduce/value")
	case 5: // Chan over a pre-filled closed channel
		c := make(chan int, L)
		for _, x := range items {
			c <- x
		}
		close(c)
		it := Chan[int](c)
		for i := 0; i < L+2; i++ {
			v, ok := it.Next()
			if i < L {
				vAssert(vAnd(ok, v == items[i]), "chan/items")
			} else {
				vAssert(!ok, "sticky-end/chan")
			}
		}
	case 6: // Filter agrees with xslices.Filter
		ref := xslices.Filter(items, vOdd)
		got := Collect(Filter[int](src, vOdd))
		vAssert(len(got) == len(ref), "agree/filter-xslices-len")
		for i := 0; i < len(got) && i < len(ref); i++ {
			vAssert(got[i] == ref[i], "agree/filter-xslices-items")
		}
	}
	vCover("iter-reducers")
}
