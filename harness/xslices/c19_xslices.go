package xslices

//verif:pkg ./xslices
//verif:case C19 quick VerifPartition 0..5
//verif:case C19 thorough VerifPartition 6..7
//verif:case C19 quick VerifRemoveUnordered 0..5
//verif:case C19 thorough VerifRemoveUnordered 6..7
//verif:case C19 quick VerifUnique 0..4 0..1
//verif:case C19 thorough VerifUnique 5 0..1
//verif:case C19 quick VerifChunk 0..5
//verif:case C19 thorough VerifChunk 6..8
//verif:case C19 quick VerifRuns 0..5
//verif:case C19 thorough VerifRuns 6..7
//verif:case C19 quick VerifShrink 0..4 0..3
//verif:case C19 quick VerifSmall 0..13 0..4
//verif:case C19 thorough VerifSmall 0..13 5..6
//verif:case C19 quick VerifGo121 0..11 0..4
//verif:case C19 thorough VerifGo121 0..11 5

type vElem struct {
	ID int // concrete position tag
	V  int // symbolic payload
}

func vSymInts(n int, hint string) []int {
	s := make([]int, n)
	for i := range s {
		s[i] = vNondetInt(hint)
	}
	return s
}

func vSymElems(n int) []vElem {
	s := make([]vElem, n)
	for i := range s {
		s[i] = vElem{ID: i, V: vNondetInt("v")}
	}
	return s
}

// VerifPartition: all !f before the returned index, all f from it on, permutation of the input.
func VerifPartition(n int) {
	s := vSymElems(n)
	orig := append([]vElem(nil), s...)
	f := func(e vElem) bool { return e.V&1 == 1 }
	p := Partition(s, f)
	vAssert(vAnd(0 <= p, p <= n), "partition/index-range")
	for i := 0; i < n; i++ {
		vAssert(vImplies(i < p, !f(s[i])), "partition/false-prefix")
		vAssert(vImplies(i >= p, f(s[i])), "partition/true-suffix")
	}
	seen := make([]int, n)
	for i := 0; i < n; i++ {
		id := s[i].ID
		vAssert(vAnd(0 <= id, id < n), "partition/permutation")
		seen[id]++
		vAssert(s[i].V == orig[id].V, "partition/elements-intact")
	}
	for i := 0; i < n; i++ {
		vAssert(seen[i] == 1, "partition/permutation")
	}
	vCover("partition")
}

// VerifRemoveUnordered: for 0 <= idx, 0 <= k, idx+k <= len: result = input minus positions
// [idx, idx+k) as a multiset, shares s's array, vacated tail cleared.
func VerifRemoveUnordered(n int) {
	s := vSymElems(n)
	orig := append([]vElem(nil), s...)
	idx := vNondetInt("idx")
	k := vNondetInt("k")
	vAssume(vAnd(vAnd(0 <= idx, 0 <= k), vAnd(idx <= n, k <= n-idx)))
	r := RemoveUnordered(s, idx, k)
	idx = vConcretize(idx)
	k = vConcretize(k)
	vAssert(len(r) == n-k, "removeunordered/len")
	seen := make([]int, n)
	for i := 0; i < len(r); i++ {
		id := r[i].ID
		seen[id]++
		vAssert(r[i].V == orig[id].V, "removeunordered/elements-intact")
	}
	for i := 0; i < n; i++ {
		want := 1
		if i >= idx && i < idx+k {
			want = 0
		}
		vAssert(seen[i] == want, "removeunordered/multiset")
	}
	for i := n - k; i < n; i++ {
		vAssert(vAnd(s[i].ID == 0, s[i].V == 0), "removeunordered/tail-cleared")
	}
	if len(r) > 0 {
		vAssert(&r[0] == &s[0], "removeunordered/in-place")
	}
	// elements before idx keep their positions
	for i := 0; i < idx && i < len(r); i++ {
		vAssert(r[i].ID == i, "removeunordered/prefix-untouched")
	}
	vCover("removeunordered")
}

func vRefUnique(s []int) []int {
	out := []int{}
	for i := range s {
		dup := false
		for j := 0; j < i; j++ {
			if s[j] == s[i] {
				dup = true
			}
		}
		if !dup {
			out = append(out, s[i])
		}
	}
	return out
}

// VerifUnique: first occurrences in order; the in-place variant reuses s and clears the tail.
func VerifUnique(n int, inPlace int) {
	s := vSymInts(n, "s")
	orig := append([]int(nil), s...)
	var r []int
	if inPlace == 1 {
		r = UniqueInPlace(s)
	} else {
		r = Unique(s)
	}
	ref := vRefUnique(orig)
	vAssert(len(r) == len(ref), "unique/len")
	for i := 0; i < len(r) && i < len(ref); i++ {
		vAssert(r[i] == ref[i], "unique/items")
	}
	if inPlace == 1 {
		for i := len(r); i < n; i++ {
			vAssert(s[i] == 0, "unique/inplace-tail-cleared")
		}
		if len(r) > 0 {
			vAssert(&r[0] == &s[0], "unique/inplace-aliases")
		}
	} else {
		for i := 0; i < n; i++ {
			vAssert(s[i] == orig[i], "unique/input-untouched")
		}
	}
	vCover("unique")
}

// VerifChunk: panics iff chunkSize <= 0; otherwise the chunks concatenate to s, every chunk
// but the last has chunkSize items, the last has 1..chunkSize, chunks alias s.
func VerifChunk(n int) {
	s := vSymInts(n, "s")
	c := vNondetInt("chunkSize")
	vAssume(vAnd(-3 <= c, c <= n+2))
	var out [][]int
	p := vTry(func() { out = Chunk(s, c) })
	if c <= 0 {
		vAssert(p, "chunk/nonpositive-size-panics")
		vCover("chunk-panic")
		return
	}
	vAssert(!p, "chunk/no-panic")
	c = vConcretize(c)
	want := (n + c - 1) / c
	vAssert(len(out) == want, "chunk/count")
	pos := 0
	for i := 0; i < len(out); i++ {
		if i < len(out)-1 {
			vAssert(len(out[i]) == c, "chunk/full-size")
		} else {
			vAssert(vAnd(len(out[i]) >= 1, len(out[i]) <= c), "chunk/last-size")
		}
		for j := range out[i] {
			vAssert(pos < n, "chunk/concat")
			if pos < n {
				vAssert(&out[i][j] == &s[pos], "chunk/aliases-input")
			}
			pos++
		}
	}
	vAssert(pos == n, "chunk/concat")
	vCover("chunk")
}

// VerifRuns: maximal runs of equal items, in order, concatenating to s, aliasing s.
func VerifRuns(n int) {
	s := vSymInts(n, "s")
	runs := Runs(s, func(a, b int) bool { return a == b })
	pos := 0
	for i := range runs {
		vAssert(len(runs[i]) >= 1, "runs/nonempty-run")
		for j := range runs[i] {
			vAssert(pos < n, "runs/concat")
			if pos >= n {
				return
			}
			vAssert(&runs[i][j] == &s[pos], "runs/aliases-input")
			if j > 0 {
				vAssert(runs[i][j] == runs[i][j-1], "runs/same-within-run")
			}
			pos++
		}
		if i > 0 && len(runs[i]) > 0 && len(runs[i-1]) > 0 {
			vAssert(runs[i][0] != runs[i-1][len(runs[i-1])-1], "runs/maximal")
		}
	}
	vAssert(pos == n, "runs/concat")
	vCover("runs")
}

// VerifShrink: cap(result) <= len+n, contents equal.
func VerifShrink(n int, extra int) {
	backing := make([]int, n+extra)
	s := backing[:n]
	for i := range s {
		s[i] = vNondetInt("s")
	}
	k := vNondetInt("n")
	vAssume(vAnd(0 <= k, k <= extra+1))
	r := Shrink(s, k)
	vAssert(len(r) == n, "shrink/len")
	vAssert(cap(r) <= n+k, "shrink/cap")
	for i := 0; i < n && i < len(r); i++ {
		vAssert(r[i] == s[i], "shrink/contents")
	}
	vCover("shrink")
}

// VerifSmall: the remaining small helpers against slice-level reference code.
func VerifSmall(which int, n int) {
	s := vSymInts(n, "s")
	orig := append([]int(nil), s...)
	x := vNondetInt("x")
	odd := func(v int) bool { return v&1 == 1 }
	switch which {
	case 0: // All
		want := true
		for i := range s {
			want = vAnd(want, odd(s[i]))
		}
		vAssert(All(s, odd) == want, "all")
	case 1: // Count / CountFunc
		c1, c2 := 0, 0
		for i := range s {
			c1 += vIte(s[i] == x, 1, 0)
			c2 += vIte(odd(s[i]), 1, 0)
		}
		vAssert(Count(s, x) == c1, "count")
		vAssert(CountFunc(s, odd) == c2, "countfunc")
	case 2: // Fill / Clear
		Fill(s, x)
		for i := range s {
			vAssert(s[i] == x, "fill")
		}
		Clear(s)
		for i := range s {
			vAssert(s[i] == 0, "clear")
		}
	case 3: // LastIndex / LastIndexFunc
		w1, w2 := -1, -1
		for i := range s {
			w1 = vIte(s[i] == x, i, w1)
			w2 = vIte(odd(s[i]), i, w2)
		}
		vAssert(LastIndex(s, x) == w1, "lastindex")
		vAssert(LastIndexFunc(s, odd) == w2, "lastindexfunc")
	case 4: // Map
		r := Map(s, func(v int) int { return v + 1 })
		vAssert(len(r) == n, "map/len")
		for i := 0; i < n && i < len(r); i++ {
			vAssert(r[i] == s[i]+1, "map/items")
		}
	case 5: // Reduce
		sum := x
		for i := range s {
			sum = sum*3 + s[i]
		}
		vAssert(Reduce(s, x, func(a int, v int) int { return a*3 + v }) == sum, "reduce")
	case 6: // Repeat
		k := vNondetInt("k")
		vAssume(vAnd(0 <= k, k <= n))
		r := Repeat(x, k)
		vAssert(len(r) == k, "repeat/len")
		for i := range r {
			vAssert(r[i] == x, "repeat/items")
		}
	case 7: // Reverse
		Reverse(s)
		for i := range s {
			vAssert(s[i] == orig[n-1-i], "reverse")
		}
	case 8: // Join (0..3 slices incl. empty)
		a := s[:n/2]
		b := s[n/2:]
		r := Join(a, nil, b)
		vAssert(len(r) == n, "join/len")
		for i := 0; i < n && i < len(r); i++ {
			vAssert(r[i] == s[i], "join/items")
		}
		vAssert(len(Join[int]()) == 0, "join/none")
	case 9: // Group
		g := Group(s, func(v int) int { return v & 1 })
		total := 0
		for k, vs := range g {
			vAssert(len(vs) > 0, "group/no-empty-group")
			last := -1
			for _, v := range vs {
				vAssert(v&1 == k, "group/key")
				// order within a group follows s
				found := -1
				for i := last + 1; i < n; i++ {
					if found < 0 && s[i] == v && s[i]&1 == k {
						found = i
					}
				}
				vAssert(found >= 0, "group/order")
				last = found
				total++
			}
		}
		vAssert(total == n, "group/total")
	case 10: // Chunk composed with Join round-trips
		if n == 0 {
			return
		}
		c := vNondetInt("c")
		vAssume(vAnd(1 <= c, c <= n+1))
		r := Join(Chunk(s, c)...)
		vAssert(len(r) == n, "chunk-join/len")
		for i := 0; i < n && i < len(r); i++ {
			vAssert(r[i] == s[i], "chunk-join/items")
		}
	case 11: // Partition on plain ints with a threshold predicate: result index counts the falses
		p := Partition(s, func(v int) bool { return v >= x })
		cnt := 0
		for i := range orig {
			cnt += vIte(orig[i] < x, 1, 0)
		}
		vAssert(p == cnt, "partition/index-is-count-of-false")
	case 12: // RemoveUnordered removing everything / nothing
		r := RemoveUnordered(s, 0, n)
		vAssert(len(r) == 0, "removeunordered/all")
		s2 := append([]int(nil), orig...)
		r2 := RemoveUnordered(s2, n, 0)
		vAssert(len(r2) == n, "removeunordered/none")
		for i := 0; i < n && i < len(r2); i++ {
			vAssert(r2[i] == orig[i], "removeunordered/none-contents")
		}
	case 13: // UniqueInPlace of already-unique ascending input is the identity
		for i := 1; i < n; i++ {
			vAssume(s[i-1] < s[i])
		}
		r := UniqueInPlace(s)
		vAssert(len(r) == n, "unique/identity-len")
		for i := 0; i < n && i < len(r); i++ {
			vAssert(r[i] == orig[i], "unique/identity-items")
		}
	}
	vCover("small")
}

// VerifGo121: the wrappers over package slices (real stdlib SSA is executed underneath).
func VerifGo121(which int, n int) {
	s := vSymInts(n, "s")
	orig := append([]int(nil), s...)
	x := vNondetInt("x")
	odd := func(v int) bool { return v&1 == 1 }
	eq := func(a, b int) bool { return a == b }
	refCompact := func(in []int) []int {
		out := []int{}
		for i := range in {
			if i == 0 || in[i] != in[i-1] {
				out = append(out, in[i])
			}
		}
		return out
	}
	refFilter := func(in []int) []int {
		out := []int{}
		for i := range in {
			if odd(in[i]) {
				out = append(out, in[i])
			}
		}
		return out
	}
	same := func(tag string, got, want []int) {
		vAssert(len(got) == len(want), tag+"/len")
		for i := 0; i < len(got) && i < len(want); i++ {
			vAssert(got[i] == want[i], tag+"/items")
		}
	}
	untouched := func(tag string) {
		for i := range s {
			vAssert(s[i] == orig[i], tag+"/input-untouched")
		}
	}
	switch which {
	case 0: // Any
		want := false
		for i := range s {
			want = vOr(want, odd(s[i]))
		}
		vAssert(Any(s, odd) == want, "any")
	case 1: // Clone
		r := Clone(s)
		same("clone", r, orig)
		if n > 0 && len(r) > 0 {
			vAssert(&r[0] != &s[0], "clone/fresh-array")
		}
	case 2: // Compact / CompactFunc (copying)
		same("compact", Compact(s), refCompact(orig))
		untouched("compact")
		same("compactfunc", CompactFunc(s, eq), refCompact(orig))
		untouched("compactfunc")
	case 3: // CompactInPlace / CompactInPlaceFunc
		same("compactinplace", CompactInPlace(s), refCompact(orig))
		s2 := append([]int(nil), orig...)
		same("compactinplacefunc", CompactInPlaceFunc(s2, eq), refCompact(orig))
	case 4: // Equal / EqualFunc
		t := vSymInts(n, "t")
		want := true
		for i := range s {
			want = vAnd(want, s[i] == t[i])
		}
		vAssert(Equal(s, t) == want, "equal")
		vAssert(EqualFunc(s, t, eq) == want, "equalfunc")
		if n > 0 {
			vAssert(!Equal(s, t[:n-1]), "equal/length-mismatch")
		}
	case 5: // Filter
		same("filter", Filter(s, odd), refFilter(orig))
		untouched("filter")
	case 6: // FilterInPlace
		r := FilterInPlace(s, odd)
		same("filterinplace", r, refFilter(orig))
	case 7: // Grow
		k := vNondetInt("k")
		vAssume(vAnd(0 <= k, k <= 3))
		r := Grow(s, k)
		same("grow", r, orig)
		vAssert(cap(r)-len(r) >= k, "grow/room")
	case 8: // Index / IndexFunc
		w1, w2 := -1, -1
		for i := n - 1; i >= 0; i-- {
			w1 = vIte(s[i] == x, i, w1)
			w2 = vIte(odd(s[i]), i, w2)
		}
		vAssert(Index(s, x) == w1, "index")
		vAssert(IndexFunc(s, odd) == w2, "indexfunc")
	case 9: // Insert
		idx := vNondetInt("idx")
		vAssume(vAnd(0 <= idx, idx <= n))
		y := vNondetInt("y")
		r := Insert(s, idx, x, y)
		idx = vConcretize(idx)
		want := append(append(append([]int{}, orig[:idx]...), x, y), orig[idx:]...)
		same("insert", r, want)
	case 10: // Remove
		idx := vNondetInt("idx")
		k := vNondetInt("k")
		vAssume(vAnd(vAnd(0 <= idx, 0 <= k), vAnd(idx <= n, k <= n-idx)))
		r := Remove(s, idx, k)
		idx = vConcretize(idx)
		k = vConcretize(k)
		want := append(append([]int{}, orig[:idx]...), orig[idx+k:]...)
		same("remove", r, want)
	case 11: // iterator-style agreement: Filter then Compact equals reference composition
		same("filter-compact", Compact(Filter(s, odd)), refCompact(refFilter(orig)))
	}
	vCover("go121")
}
