package xmaps

//verif:pkg ./xmaps
//verif:case C19 quick VerifSetAlgebra 0..2 0..2 0..1
//verif:case C19 thorough VerifSetAlgebra 0..1 0..2 2
//verif:case C19 thorough VerifSetAlgebra 2 0..1 2
//verif:case C19 thorough VerifSetAlgebra 3 0..1 0..1
//verif:case C19 quick VerifSetAlgebraNil 1..7 0..2 0..1
//verif:case C19 quick VerifMapHelpers 0..3
//verif:case C19 quick VerifSetMethods 0..3

func vDomSlice(n int, hint string) []int {
	s := make([]int, n)
	for i := range s {
		s[i] = vNondetInt(hint)
		vAssume(vAnd(0 <= s[i], s[i] <= 2))
	}
	return s
}

func vIn(s []int, k int) bool {
	r := false
	for _, e := range s {
		r = vOr(r, e == k)
	}
	return r
}

// VerifSetAlgebra: Union/Intersection/Intersects/Difference as set algebra over a 3-value
// domain, for 0..3 sets of up to 3 (possibly duplicate) elements each; every iteration order
// of the (<= 3 entry) maps is explored.
func VerifSetAlgebra(la, lb, lc int) {
	as, bs, cs := vDomSlice(la, "a"), vDomSlice(lb, "b"), vDomSlice(lc, "c")
	A, B, C := SetFromSlice(as), SetFromSlice(bs), SetFromSlice(cs)
	u := Union(A, B, C)
	i3 := Intersection(A, B, C)
	i2 := Intersection(A, B)
	d := Difference(A, B)
	any3 := Intersects(A, B, C)
	anyInter := false
	for k := 0; k <= 2; k++ {
		inA, inB, inC := vIn(as, k), vIn(bs, k), vIn(cs, k)

		vAssert(A.Contains(k) == inA, "setfromslice/membership")
		vAssert(u.Contains(k) == vOr(inA, vOr(inB, inC)), "union/membership")
		vAssert(i3.Contains(k) == vAnd(inA, vAnd(inB, inC)), "intersection3/membership")
		vAssert(i2.Contains(k) == vAnd(inA, inB), "intersection2/membership")
		vAssert(d.Contains(k) == vAnd(inA, !inB), "difference/membership")
		anyInter = vOr(anyInter, vAnd(inA, vAnd(inB, inC)))
	}
	vAssert(any3 == anyInter, "intersects/agrees-with-intersection")
	vAssert(len(Union[Set[int]]()) == 0, "union/none")
	vAssert(len(Intersection[Set[int]]()) == 0, "intersection/none")
	vAssert(!Intersects[Set[int]](), "intersects/none")
	one := Intersection(A)
	for k := 0; k <= 2; k++ {
		vAssert(one.Contains(k) == vIn(as, k), "intersection1/identity")
	}
	vCover("set-algebra")
}

// VerifSetAlgebraArgs: the variadic set functions called with a caller-owned slice spread into
// the parameter - none of them is documented to touch its arguments.
//verif:case C19 quick VerifSetAlgebraArgs 0..2 0..2 0..1
//verif:case C19 thorough VerifSetAlgebraArgs 0..2 0..1 2
func VerifSetAlgebraArgs(la, lb, lc int) {
	as, bs, cs := vDomSlice(la, "a"), vDomSlice(lb, "b"), vDomSlice(lc, "c")
	all := []Set[int]{SetFromSlice(as), SetFromSlice(bs), SetFromSlice(cs)}
	switch vChoose(3) {
	case 0:
		Union(all...)
	case 1:
		Intersection(all...)
	case 2:
		Intersects(all...)
	}
	for k := 0; k <= 2; k++ {
		inA, inB, inC := vIn(as, k), vIn(bs, k), vIn(cs, k)
		vAssert(vAnd(all[0].Contains(k) == inA, vAnd(all[1].Contains(k) == inB, all[2].Contains(k) == inC)), "setalgebra/argument-slice-left-alone")
	}
	vCover("set-algebra-args")
}

// VerifMapHelpers: Reverse, ReverseSingle, ToIndex, FromKeysAndValues.
func VerifMapHelpers(n int) {
	keys := make([]int, n)
	for i := range keys {
		keys[i] = vNondetInt("key")
		vAssume(vAnd(0 <= keys[i], keys[i] <= 2))
	}
	vals := vDomSlice(n, "val")
	// ToIndex: last index of each key
	idx := ToIndex(keys)
	for k := 0; k <= 2; k++ {
		want := -1
		for i := range keys {
			want = vIte(keys[i] == k, i, want)
		}
		got, ok := idx[k]
		vAssert(ok == (want >= 0), "toindex/presence")
		vAssert(vImplies(ok, got == want), "toindex/last-index")
	}
	// FromKeysAndValues
	m, allOk := FromKeysAndValues(keys, vals)
	dup := false
	for i := range keys {
		for j := 0; j < i; j++ {
			dup = vOr(dup, keys[i] == keys[j])
		}
	}
	vAssert(allOk == !dup, "fromkeysandvalues/ok-iff-no-duplicate-key")
	for k := 0; k <= 2; k++ {
		want, present := 0, false
		for i := range keys {
			want = vIte(keys[i] == k, vals[i], want)
			present = vOr(present, keys[i] == k)
		}
		got, ok := m[k]
		vAssert(ok == present, "fromkeysandvalues/presence")
		vAssert(vImplies(ok, got == want), "fromkeysandvalues/last-value-wins")
	}
	if n > 0 {
		vAssert(vTry(func() { FromKeysAndValues(keys, vals[:n-1]) }), "fromkeysandvalues/length-mismatch-panics")
	}
	// Reverse / ReverseSingle on m
	rev := Reverse(m)
	total := 0
	for v, ks := range rev {
		for _, k := range ks {
			got, ok := m[k]
			vAssert(vAnd(ok, got == v), "reverse/entries-come-from-m")
			total++
		}
	}
	vAssert(total == len(m), "reverse/every-entry-once")
	rs, single := ReverseSingle(m)
	for v, k := range rs {
		got, ok := m[k]
		vAssert(vAnd(ok, got == v), "reversesingle/entries-come-from-m")
	}
	vAssert(single == (len(rs) == len(m)), "reversesingle/ok-iff-injective")
	vCover("map-helpers")
}

// VerifSetMethods: Add/Remove/Contains against a boolean-vector model.
func VerifSetMethods(n int) {
	s := make(Set[int])
	model := [3]bool{}
	for i := 0; i < n; i++ {
		k := vNondetInt("k")
		vAssume(vAnd(0 <= k, k <= 2))
		add := vNondetBool("add")
		if add {
			s.Add(k)
		} else {
			s.Remove(k)
		}
		for j := 0; j <= 2; j++ {
			model[j] = vIte(k == j, add, model[j])
		}
	}
	cnt := 0
	for j := 0; j <= 2; j++ {
		vAssert(s.Contains(j) == model[j], "set/contains")
		cnt += vIte(model[j], 1, 0)
	}
	vAssert(len(s) == cnt, "set/len")
	vCover("set-methods")
}

// VerifSetAlgebraNil: a nil set (the zero value of Set, e.g. an accumulator that was never made)
// is an empty set in every argument position: no panic, and the same answers as for an empty set.
// args: nilMask (bit i: argument i is a nil map), elements of the other arguments
func VerifSetAlgebraNil(nilMask int, la, lb int) {
	srcs := [3][]int{vDomSlice(la, "a"), vDomSlice(lb, "b"), vDomSlice(la, "c")}
	var sets [3]Set[int]
	for i := range sets {
		if nilMask&(1<<i) != 0 {
			srcs[i] = nil
			sets[i] = nil
		} else {
			sets[i] = SetFromSlice(srcs[i])
		}
	}
	A, B, C := sets[0], sets[1], sets[2]
	var u, i3, d Set[int]
	var any3 bool
	p := vTry(func() {
		u = Union(A, B, C)
		i3 = Intersection(A, B, C)
		d = Difference(A, B)
		any3 = Intersects(A, B, C)
	})
	vAssert(!p, "setalgebra/nil-set-is-an-empty-set-no-panic")
	if p {
		return
	}
	anyInter := false
	for k := 0; k <= 2; k++ {
		inA, inB, inC := vIn(srcs[0], k), vIn(srcs[1], k), vIn(srcs[2], k)
		vAssert(u.Contains(k) == vOr(inA, vOr(inB, inC)), "union/membership")
		vAssert(i3.Contains(k) == vAnd(inA, vAnd(inB, inC)), "intersection3/membership")
		vAssert(d.Contains(k) == vAnd(inA, !inB), "difference/membership")
		anyInter = vOr(anyInter, vAnd(inA, vAnd(inB, inC)))
	}
	vAssert(any3 == anyInter, "intersects/agrees-with-intersection")
	// the result of Union belongs to the caller: adding to it must work and must not reach an argument
	p2 := vTry(func() { u.Add(7) })
	vAssert(!p2, "union/result-is-a-usable-set")
	for i := range sets {
		vAssert(!sets[i].Contains(7), "union/result-does-not-alias-an-argument")
	}
	vCover("set-algebra-nil")
}
