package xsort

import "github.com/bradenaw/juniper/iterator"

//verif:pkg ./xsort
//verif:case C19 quick VerifOrderHelpers
//verif:case C19 quick VerifSearch 0..5
//verif:case C19 thorough VerifSearch 6..8
//verif:case C19 quick VerifMergeSlices 0..2 0..2 0..2
//verif:case C19 thorough VerifMergeSlices 3 0..3 0..2
//verif:case C19 quick VerifMinK 0..4
//verif:case C19 thorough VerifMinK 5
//verif:case C19 quick VerifSortWrappers 0..4
//verif:case C19 thorough VerifSortWrappers 5

// a coarse order with ties: compare v>>1 only
func vCoarse(a, b int) bool { return a>>1 < b>>1 }
func vNat(a, b int) bool    { return a < b }

// VerifOrderHelpers: Greater/LessOrEqual/GreaterOrEqual/Equal/Reverse/LessCompare under a
// natural and a coarse (tie-heavy) order, for all 64-bit values.
func VerifOrderHelpers() {
	a, b := vNondetInt("a"), vNondetInt("b")
	vAssert(Greater(vNat, a, b) == (a > b), "greater")
	vAssert(LessOrEqual(vNat, a, b) == (a <= b), "lessorequal")
	vAssert(GreaterOrEqual(vNat, a, b) == (a >= b), "greaterorequal")
	vAssert(Equal(vNat, a, b) == (a == b), "equal")
	vAssert(Equal(vCoarse, a, b) == (a>>1 == b>>1), "equal/coarse")
	vAssert(Reverse(vNat)(a, b) == (b < a), "reverse")
	c := LessCompare(vCoarse)(a, b)
	vAssert(vImplies(a>>1 < b>>1, c == -1), "lesscompare/less")
	vAssert(vImplies(a>>1 > b>>1, c == 1), "lesscompare/greater")
	vAssert(vImplies(a>>1 == b>>1, c == 0), "lesscompare/equivalent")
	vCover("order-helpers")
}

// VerifSearch: on a slice sorted under a coarse order, Search returns the first index whose
// element is not less than item (len if none).
func VerifSearch(n int) {
	x := make([]int, n)
	for i := range x {
		x[i] = vNondetInt("x")
		if i > 0 {
			vAssume(!vCoarse(x[i], x[i-1])) // sorted: x[i-1] <= x[i] under the order
		}
	}
	item := vNondetInt("item")
	r := Search(x, vCoarse, item)
	vAssert(vAnd(0 <= r, r <= n), "search/range")
	for i := 0; i < n; i++ {
		vAssert(vImplies(i < r, vCoarse(x[i], item)), "search/before-are-less")
		vAssert(vImplies(i >= r, !vCoarse(x[i], item)), "search/from-result-not-less")
	}
	vCover("search")
}

func vSortedInts(n int, hint string, less func(a, b int) bool) []int {
	s := make([]int, n)
	for i := range s {
		s[i] = vNondetInt(hint)
		if i > 0 {
			vAssume(!less(s[i], s[i-1]))
		}
	}
	return s
}

// VerifMergeSlices: output sorted, multiset union of the inputs (0..3 inputs incl. empty ones),
// the provided out slice is reused when it has room. Merge (iterators) is exercised underneath.
func VerifMergeSlices(la, lb, lc int) {
	type el = int
	a := vSortedInts(la, "a", vCoarse)
	b := vSortedInts(lb, "b", vCoarse)
	c := vSortedInts(lc, "c", vCoarse)
	// a reused buffer: already holding something, and large enough
	pre := make([]int, (la+lb+lc+1)/2, la+lb+lc)
	for i := range pre {
		pre[i] = -7
	}
	var out []int
	switch {
	case la == 0 && lb == 0 && lc == 0:
		out = MergeSlices(vCoarse, pre)
	default:
		out = MergeSlices(vCoarse, pre, a, b, c)
	}
	n := la + lb + lc
	vAssert(len(out) == n, "mergeslices/len")
	if len(out) != n {
		return
	}
	for i := 1; i < n; i++ {
		vAssert(!vCoarse(out[i], out[i-1]), "mergeslices/sorted")
	}
	// multiset: for a skolem value v, count in out == count in inputs
	v := vNondetInt("v")
	cin, cout := 0, 0
	for _, s := range [][]int{a, b, c} {
		for _, e := range s {
			cin += vIte(e == v, 1, 0)
		}
	}
	for _, e := range out {
		cout += vIte(e == v, 1, 0)
	}
	vAssert(cin == cout, "mergeslices/multiset")
	if n > 0 {
		vAssert(&out[0] == &pre[:1][0], "mergeslices/reuses-out")
	}
	vCover("mergeslices")
}

// VerifMinK: the k smallest items in sorted order (all of them if fewer than k).
func VerifMinK(n int) {
	s := make([]int, n)
	for i := range s {
		s[i] = vNondetInt("s")
	}
	k := vNondetInt("k")
	vAssume(vAnd(0 <= k, k <= n+1))
	out := MinK(vCoarse, iterator.Slice(s), k)
	k = vConcretize(k)
	want := k
	if n < k {
		want = n
	}
	vAssert(len(out) == want, "mink/len")
	if len(out) != want {
		return
	}
	for i := 1; i < len(out); i++ {
		vAssert(!vCoarse(out[i], out[i-1]), "mink/sorted")
	}
	// every item of s is either in out (as a multiset) or not less than out's maximum
	v := vNondetInt("v")
	cs, co := 0, 0
	for _, e := range s {
		cs += vIte(e == v, 1, 0)
	}
	for _, e := range out {
		co += vIte(e == v, 1, 0)
	}
	vAssert(co <= cs, "mink/sub-multiset")
	if want > 0 {
		mx := out[want-1]
		// number of items strictly less than the maximum kept is < k, and all of them are kept
		vAssert(vImplies(vAnd(cs > 0, vCoarse(v, mx)), co == cs), "mink/all-smaller-kept")
	}
	vCover("mink")
}

// VerifSortWrappers: Slice, SliceStable and SliceIsSorted hand the caller's order to package sort
// unchanged. On n symbolic items under a coarse (tie-heavy) order: SliceIsSorted is true exactly
// when no element is less than its predecessor; after Slice / SliceStable the slice is sorted and
// is a permutation of the input (each item has the same number of occurrences), and SliceStable
// keeps the input order of equivalent items (items are tagged with their input position in the
// low bit range, which the coarse order ignores).
func VerifSortWrappers(n int) {
	in := make([]int, n)
	for i := range in {
		v := vNondetInt("x")
		vAssume(vAnd(v >= 0, v < 4))
		in[i] = v<<8 | i // order looks at bits >= 9 only: v>>1 classes; position tag below
	}
	less := func(a, b int) bool { return a>>9 < b>>9 }
	want := true
	for i := 1; i < n; i++ {
		want = vAnd(want, !less(in[i], in[i-1]))
	}
	vAssert(SliceIsSorted(in, less) == want, "sliceissorted/iff-no-element-less-than-its-predecessor")
	for variant := 0; variant < 2; variant++ {
		x := append([]int(nil), in...)
		if variant == 0 {
			Slice(x, less)
		} else {
			SliceStable(x, less)
		}
		for i := 1; i < n; i++ {
			vAssert(!less(x[i], x[i-1]), "sort/result-is-sorted")
			if variant == 1 {
				vAssert(vImplies(!less(x[i-1], x[i]), x[i-1]&0xff < x[i]&0xff), "slicestable/equivalent-items-keep-their-input-order")
			}
		}
		for i := range in {
			cnt := 0
			for j := range x {
				if x[j] == in[i] {
					cnt++
				}
			}
			vAssert(cnt == 1, "sort/result-is-a-permutation-of-the-input")
		}
		vAssert(SliceIsSorted(x, less), "sliceissorted/true-after-sorting")
	}
	vCover("sort-wrappers")
}
