package deque

//verif:pkg ./container/deque
//verif:case C15 quick VerifDequeIter 0..7 -1..6
//verif:case C15 quick VerifDequeIter 1..5 16
//verif:case C15 thorough VerifDequeIter 0 16
//verif:case C15 thorough VerifDequeIter 0..7 7..10

// VerifDequeIter: symbolic valid deque of capacity c, Iterate, j x Next, one mid-iteration
// operation (op), then Next until the end or a panic. Snapshot-or-panic:
// everything yielded is the snapshot taken at Iterate() in order; the end is reported only
// after the whole snapshot; after >= 1 Next, adding or removing makes the next call panic.
func VerifDequeIter(op int, c int) {
	d := dqSymbolic(c)
	n0 := vConcretize(dqLen(d))
	snap := make([]int, n0)
	for i := range snap {
		snap[i] = dqAt(d, i)
	}
	it := d.Iterate()
	j := vNondetInt("consumed")
	vAssume(vAnd(0 <= j, j <= n0))
	jc := vConcretize(j)
	for k := 0; k < jc; k++ {
		v, ok := it.Next()
		vAssert(ok, "iter/unchanged-yields-all")
		vAssert(v == snap[k], "iter/unchanged-yields-contents")
	}
	opName := "none"
	structural := false // adds or removes an element
	cc := c
	if cc < 0 {
		cc = 0
	}
	switch op {
	case 0:
		opName = "none"
	case 1:
		opName, structural = "pushfront", true
		d.PushFront(vNondetInt("x"))
	case 2:
		opName, structural = "pushback", true
		d.PushBack(vNondetInt("x"))
	case 3:
		if n0 == 0 {
			return
		}
		opName, structural = "popfront", true
		d.PopFront()
	case 4:
		if n0 == 0 {
			return
		}
		opName, structural = "popback", true
		d.PopBack()
	case 5:
		if n0 == 0 {
			return
		}
		opName = "set"
		i := vNondetInt("i")
		vAssume(vAnd(0 <= i, i < n0))
		d.Set(i, vNondetInt("x"))
	case 6:
		opName = "grow"
		n := vNondetInt("n")
		vAssume(vAnd(0 <= n, n <= cc+2))
		d.Grow(n)
	case 7:
		opName = "shrink"
		n := vNondetInt("n")
		vAssume(vAnd(0 <= n, n <= cc+2))
		d.Shrink(n)
	}
	count := jc
	ended := false
	for calls := 0; calls < n0+3; calls++ {
		var v int
		var ok bool
		p := vTry(func() { v, ok = it.Next() })
		if calls == 0 && structural && jc >= 1 {
			vAssert(p, "iter/"+opName+"/next-call-panics-after-add-or-remove")
		}
		if p {
			vCover("iter-panics-" + opName)
			return
		}
		if !ok {
			ended = true
			break
		}
		vAssert(count < n0, "iter/"+opName+"/yields-no-more-than-snapshot")
		if count >= n0 {
			return
		}
		vAssert(v == snap[count], "iter/"+opName+"/yields-snapshot-prefix")
		count++
	}
	vAssert(ended, "iter/"+opName+"/terminates")
	vAssert(count == n0, "iter/"+opName+"/end-only-after-whole-snapshot")
	_, again := it.Next()
	vAssert(!again, "iter/"+opName+"/end-is-sticky")
	vCover("iter-completes-" + opName)
}
