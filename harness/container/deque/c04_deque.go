package deque

//verif:pkg ./container/deque
//verif:case C04 quick VerifDequeBase
//verif:case C04 quick VerifDequeStep 0..8,12..13 -1..10,16,17,32
//verif:case C04 quick VerifDequeStep 11 -1..10,16
//verif:case C04 quick VerifDequeStep 9..10 -1..8
//verif:case C04 thorough VerifDequeStep 0..8,12..13 11..15,18..31,33..40 @unwind=200
//verif:case C04 thorough VerifDequeStep 11 11..15
//verif:case C04 thorough VerifDequeStep 9..10 9..13,16

// ---- representation invariant and abstraction (branch-free; loops run over concrete sizes)

// dqLive: slot i holds a live element.
func dqLive(d *Deque[int], i int) bool {
	nonEmpty := vAnd(d.a != nil, d.back != -1)
	straight := vAnd(d.front <= i, i <= d.back)
	wrapped := vOr(i >= d.front, i <= d.back)
	return vAnd(nonEmpty, vIte(d.front <= d.back, straight, wrapped))
}

// dqShape: the index part of the representation invariant (a helper obligation).
func dqShape(d *Deque[int]) bool {
	c := len(d.a)
	if d.a == nil {
		return vAnd(d.front == 0, d.back == 0)
	}
	frontOK := vAnd(0 <= d.front, vOr(d.front < c, vAnd(c == 0, d.front == 0)))
	empty := vAnd(d.back == -1, frontOK)
	nonEmpty := vAnd(vAnd(0 <= d.front, d.front < c), vAnd(0 <= d.back, d.back < c))
	return vOr(empty, nonEmpty)
}

// dqNoGarbage: every slot outside the live range holds the zero value (property clause).
func dqNoGarbage(d *Deque[int]) bool {
	ok := true
	for i := 0; i < len(d.a); i++ {
		ok = vAnd(ok, vOr(dqLive(d, i), d.a[i] == 0))
	}
	return ok
}

// dqLen: ideal length, computed from the representation independently of Len().
func dqLen(d *Deque[int]) int {
	c := len(d.a)
	empty := vOr(d.a == nil, d.back == -1)
	return vIte(empty, 0, vIte(d.front <= d.back, d.back-d.front+1, c-d.front+d.back+1))
}

// dqAt: ideal sequence element j (0 = front); 0 if j is out of range.
func dqAt(d *Deque[int], j int) int {
	c := len(d.a)
	if c == 0 {
		return 0
	}
	idx := d.front + j
	idx = vIte(idx >= c, idx-c, idx)
	r := 0
	for k := 0; k < c; k++ {
		r = vIte(idx == k, d.a[k], r)
	}
	return r
}

func dqSymbolic(c int) *Deque[int] {
	d := &Deque[int]{}
	if c >= 0 {
		d.a = make([]int, c)
		for i := range d.a {
			d.a[i] = vNondetInt("a")
		}
	}
	d.front = vNondetInt("front")
	d.back = vNondetInt("back")
	d.gen = vNondetInt("gen")
	vAssume(dqShape(d))
	vAssume(dqNoGarbage(d))
	return d
}

// VerifDequeBase: the zero value satisfies the invariant and is empty.
func VerifDequeBase() {
	var d Deque[int]
	vAssert(dqShape(&d), "base/shape")
	vAssert(dqNoGarbage(&d), "base/no-garbage")
	vAssert(d.Len() == 0, "base/len")
	vCover("base")
}

// VerifDequeStep: one operation from an arbitrary valid state with buffer capacity c
// (c = -1: unallocated). op selects the operation.
func VerifDequeStep(op int, c int) {
	d := dqSymbolic(c)
	n0 := dqLen(d)
	j := vNondetInt("j") // skolem index into the ideal sequence
	jIn := vAnd(0 <= j, j < n0)
	old := dqAt(d, j)
	front0, back0 := d.front, d.back
	vAssert(d.Len() == n0, "len/agrees-with-model")

	post := func(tag string) {
		vAssert(dqShape(d), tag+"/helper-shape")
		vAssert(dqNoGarbage(d), tag+"/no-garbage")
	}
	unchanged := func(tag string) {
		vAssert(dqLen(d) == n0, tag+"/len-unchanged")
		vAssert(vImplies(jIn, dqAt(d, j) == old), tag+"/contents-unchanged")
		post(tag)
	}

	switch op {
	case 0: // PushFront
		x := vNondetInt("x")
		d.PushFront(x)
		post("pushfront")
		vAssert(d.Len() == n0+1, "pushfront/len")
		vAssert(dqAt(d, 0) == x, "pushfront/head")
		vAssert(vImplies(jIn, dqAt(d, j+1) == old), "pushfront/shift")
		vCover("pushfront")
	case 1: // PushBack
		x := vNondetInt("x")
		d.PushBack(x)
		post("pushback")
		vAssert(d.Len() == n0+1, "pushback/len")
		vAssert(dqAt(d, n0) == x, "pushback/tail")
		vAssert(vImplies(jIn, dqAt(d, j) == old), "pushback/keep")
		vCover("pushback")
	case 2: // PopFront
		var r int
		p := vTry(func() { r = d.PopFront() })
		if n0 == 0 {
			vAssert(p, "popfront/empty-panics")
			unchanged("popfront-empty")
			vCover("popfront-empty")
			return
		}
		vAssert(!p, "popfront/no-panic")
		post("popfront")
		vAssert(d.Len() == n0-1, "popfront/len")
		vAssert(vImplies(j == 0, r == old), "popfront/result")
		vAssert(vImplies(vAnd(jIn, j >= 1), dqAt(d, j-1) == old), "popfront/shift")
		vCover("popfront")
	case 3: // PopBack
		var r int
		p := vTry(func() { r = d.PopBack() })
		if n0 == 0 {
			vAssert(p, "popback/empty-panics")
			unchanged("popback-empty")
			vCover("popback-empty")
			return
		}
		vAssert(!p, "popback/no-panic")
		post("popback")
		vAssert(d.Len() == n0-1, "popback/len")
		vAssert(vImplies(j == n0-1, r == old), "popback/result")
		vAssert(vImplies(vAnd(jIn, j < n0-1), dqAt(d, j) == old), "popback/keep")
		vCover("popback")
	case 4: // Front
		var r int
		p := vTry(func() { r = d.Front() })
		if n0 == 0 {
			vAssert(p, "front/empty-panics")
			vCover("front-empty")
		} else {
			vAssert(!p, "front/no-panic")
			vAssert(vImplies(j == 0, r == old), "front/result")
			vCover("front")
		}
		unchanged("front")
	case 5: // Back
		var r int
		p := vTry(func() { r = d.Back() })
		if n0 == 0 {
			vAssert(p, "back/empty-panics")
			vCover("back-empty")
		} else {
			vAssert(!p, "back/no-panic")
			vAssert(vImplies(j == n0-1, r == old), "back/result")
			vCover("back")
		}
		unchanged("back")
	case 6: // Item
		i := vNondetInt("i")
		var r int
		p := vTry(func() { r = d.Item(i) })
		if vAnd(0 <= i, i < n0) {
			vAssert(!p, "item/no-panic")
			vAssert(vImplies(i == j, r == old), "item/result")
			vCover("item")
		} else {
			vAssert(p, "item/out-of-range-panics")
			vCover("item-oob")
		}
		unchanged("item")
	case 7: // Set
		i := vNondetInt("i")
		x := vNondetInt("x")
		p := vTry(func() { d.Set(i, x) })
		if vAnd(0 <= i, i < n0) {
			vAssert(!p, "set/no-panic")
			post("set")
			vAssert(dqLen(d) == n0, "set/len")
			vAssert(vImplies(vAnd(jIn, j == i), dqAt(d, j) == x), "set/target")
			vAssert(vImplies(vAnd(jIn, j != i), dqAt(d, j) == old), "set/others")
			vCover("set")
		} else {
			vAssert(p, "set/out-of-range-panics")
			unchanged("set-oob")
			vCover("set-oob")
		}
	case 8: // Len
		vAssert(d.Len() == n0, "len/result")
		unchanged("len")
		vCover("len")
	case 9: // Grow
		n := vNondetInt("n")
		cc := c
		if cc < 0 {
			cc = 0
		}
		vAssume(vAnd(-2 <= n, n <= cc+2))
		d.Grow(n)
		unchanged("grow")
		vAssert(len(d.a)-dqLen(d) >= n, "grow/room")
		vCover("grow")
	case 10: // Shrink
		n := vNondetInt("n")
		cc := c
		if cc < 0 {
			cc = 0
		}
		vAssume(vAnd(-2 <= n, n <= cc+2))
		p := vTry(func() { d.Shrink(n) })
		if n < 0 {
			vAssert(p, "shrink/negative-panics")
			unchanged("shrink-neg")
			vCover("shrink-neg")
			return
		}
		vAssert(!p, "shrink/no-panic")
		unchanged("shrink")
		vAssert(len(d.a)-dqLen(d) <= n, "shrink/fits")
		vCover("shrink")
	case 11: // Iterate on an unchanged deque: exactly the contents, then sticky end
		it := d.Iterate()
		k := 0
		for {
			v, ok := it.Next()
			if !ok {
				break
			}
			vAssert(k < n0, "iterate/not-too-many")
			vAssert(v == dqAt(d, k), "iterate/item")
			k++
		}
		vAssert(k == n0, "iterate/all")
		_, ok1 := it.Next()
		_, ok2 := it.Next()
		vAssert(vAnd(!ok1, !ok2), "iterate/sticky-end")
		unchanged("iterate")
		vCover("iterate")
	case 12: // PushFront then PopFront round trip (two steps; reallocation in between)
		x := vNondetInt("x")
		d.PushFront(x)
		r := d.PopFront()
		vAssert(r == x, "pushpop-front/result")
		vAssert(dqLen(d) == n0, "pushpop-front/len")
		vAssert(vImplies(jIn, dqAt(d, j) == old), "pushpop-front/contents")
		post("pushpop-front")
		vCover("pushpop-front")
	case 13: // PushBack then PopBack
		x := vNondetInt("x")
		d.PushBack(x)
		r := d.PopBack()
		vAssert(r == x, "pushpop-back/result")
		vAssert(dqLen(d) == n0, "pushpop-back/len")
		vAssert(vImplies(jIn, dqAt(d, j) == old), "pushpop-back/contents")
		post("pushpop-back")
		vCover("pushpop-back")
	}
	_, _ = front0, back0
}
