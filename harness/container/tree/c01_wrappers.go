package tree

//verif:pkg ./container/tree
// VerifTreeSeq args: kind (0 Set with natural less, 1 Map with a coarse order on struct keys, 2 Map natural: lookups with a counting comparator), steps
//verif:case C01,C03 quick VerifTreeSeq 0..1 1..3 @variant=bf4 @unwind=600
//verif:case C01,C03 quick VerifTreeSeq 2 1..3 @variant=bf4 @unwind=600
//verif:case C01,C03 quick VerifTreeSeq 0..1 1..2 @unwind=600
//verif:case C01,C03 quick VerifTreeSeq 0..1 4 @variant=bf4 @unwind=600
//verif:case C01,C03 thorough VerifTreeSeq 0..1 5 @variant=bf4 @unwind=600
//verif:case C01,C03 quick VerifTreeLookupCost 1 -1 @unwind=600
//verif:case C01,C03 quick VerifTreeLookupCost 2 1..2 @unwind=600
//verif:case C01,C03 quick VerifTreeLookupCost 1..2 -1 @variant=bf4 @unwind=600
//verif:case C01,C03 quick VerifTreeLookupCost 3 1 @variant=bf4 @unwind=600
//verif:case C01,C03 thorough VerifTreeLookupCost 3 2..3 @variant=bf4 @unwind=600

type vCK struct {
	cls int16 // the order compares cls only
	id  int16 // distinguishes equivalent keys
}

// VerifTreeSeq: bounded histories from the empty collection through the exported wrappers:
// kind 0: Set (NewSet + less): Add / Remove / Contains / Len / First / Last / Iterate
// kind 2: Set (NewSetCmp + three-way compare), same observations
// kind 1: Map with a coarse order (distinct-but-equivalent keys): Put overwrites the value of an
//         equivalent key, Len counts classes, Get/Contains see classes, Iterate ascends by class.
// Keys come from a 4-class domain so that at fan-out 4 the fourth insert splits the root.
func VerifTreeSeq(kind int, steps int) {
	const classes = 4
	present := [classes]bool{}
	value := [classes]int16{}
	var set Set[int16]
	var m Map[vCK, int16]
	if kind == 0 {
		set = NewSet[int16](func(a, b int16) bool { return a < b })
	} else if kind == 2 {
		// the same Set through the three-way constructor (any negative / positive number is an answer)
		set = NewSetCmp[int16](func(a, b int16) int {
			if a < b {
				return -7
			} else if a > b {
				return 2
			}
			return 0
		})
		kind = 0
	} else {
		m = NewMapCmp[vCK, int16](func(a, b vCK) int {
			if a.cls < b.cls {
				return -3 // (any negative number means "less": not only -1)
			} else if a.cls > b.cls {
				return 5
			}
			return 0
		})
	}
	for s := 0; s < steps; s++ {
		c := vNondet[int16]("cls")
		vAssume(vAnd(0 <= c, c < classes))
		cc := int(vConcretize(int(c)))
		id := vNondet[int16]("id")
		switch vChoose(2) {
		case 0: // insert
			if kind == 0 {
				set.Add(c)
			} else {
				v := vNondet[int16]("v")
				m.Put(vCK{c, id}, v)
				value[cc] = v
			}
			present[cc] = true
		case 1: // delete
			if kind == 0 {
				set.Remove(c)
			} else {
				m.Delete(vCK{c, id})
			}
			present[cc] = false
		}
		// full observation after every step
		n := 0
		first, last := -1, -1
		for k := 0; k < classes; k++ {
			if present[k] {
				n++
				if first < 0 {
					first = k
				}
				last = k
			}
			if kind == 0 {
				vAssert(set.Contains(int16(k)) == present[k], "C01:set/contains")
			} else {
				probe := vCK{int16(k), vNondet[int16]("probeid")}
				vAssert(m.Contains(probe) == present[k], "C01:coarse/contains-by-class")
				if present[k] {
					vAssert(m.Get(probe) == value[k], "C01:coarse/get-last-value-put-under-an-equivalent-key")
				} else {
					vAssert(m.Get(probe) == 0, "C01:coarse/get-absent-is-zero")
				}
			}
		}
		if kind == 0 {
			vAssert(set.Len() == n, "C01:set/len-counts-distinct-keys")
			if n > 0 {
				vAssert(int(set.First()) == first && int(set.Last()) == last, "C01:set/first-last")
			} else {
				vAssert(set.First() == 0 && set.Last() == 0, "C01:set/first-last-zero-when-empty")
			}
			it := set.Iterate()
			for k := 0; k < classes; k++ {
				if present[k] {
					x, ok := it.Next()
					vAssert(ok && int(x) == k, "C01:set/iterate-ascending-exactly-the-members")
				}
			}
			_, ok := it.Next()
			vAssert(!ok, "C01:set/iterate-ends")
			if s == steps-1 && steps <= 3 { // (after the last step of the histories of up to 3 steps only: symbolic bounds multiply the paths)
				// RangeReverse [lo, hi) through the Set wrapper with symbolic bounds: strictly
				// descending members inside the bounds, as many as there are members inside
				lo, hi := vNondet[int16]("lo"), vNondet[int16]("hi")
				vAssume(vAnd(vAnd(0 <= lo, lo <= classes), vAnd(0 <= hi, hi <= classes)))
				rit := set.RangeReverse(Included(lo), Excluded(hi))
				cnt, prev := 0, int16(classes)
				for i := 0; i <= classes; i++ {
					x, ok := rit.Next()
					if !ok {
						break
					}
					vAssert(vAnd(vAnd(lo <= x, x < hi), x < prev), "C01:set/rangereverse-descending-inside-the-bounds")
					member := false
					for k := 0; k < classes; k++ {
						member = vOr(member, vAnd(present[k], x == int16(k)))
					}
					vAssert(member, "C01:set/rangereverse-yields-members")
					prev = x
					cnt++
				}
				want := 0
				for k := 0; k < classes; k++ {
					want += vIte(vAnd(present[k], vAnd(lo <= int16(k), int16(k) < hi)), 1, 0)
				}
				vAssert(cnt == want, "C01:set/rangereverse-yields-every-member-inside")
			}
			vAssertInvSet(set, "C03:setseq")
		} else {
			vAssert(m.Len() == n, "C01:coarse/len-counts-classes")
			it := m.Iterate()
			for k := 0; k < classes; k++ {
				if present[k] {
					kv, ok := it.Next()
					vAssert(ok && int(kv.Key.cls) == k && kv.Value == value[k], "C01:coarse/iterate-ascending-by-class-with-current-values")
				}
			}
			_, ok := it.Next()
			vAssert(!ok, "C01:coarse/iterate-ends")
		}
	}
	vCover("tree-seq")
}

// vAssertInvSet: structural facts for the Set instantiation (size, leaf occupancy, links).
func vAssertInvSet(s Set[int16], tag string) {
	t := s.t
	count := 0
	var walk func(x *node[int16, struct{}], parent *node[int16, struct{}], isRoot bool)
	okLinks, okOcc := true, true
	walk = func(x *node[int16, struct{}], parent *node[int16, struct{}], isRoot bool) {
		if x.parent != parent {
			okLinks = false
		}
		n := int(vConcretize(int(x.n)))
		count += n
		if !isRoot && (n < minKVs || n > maxKVs) {
			okOcc = false
		}
		if x.children[0] != nil {
			for i := 0; i <= n; i++ {
				if x.children[i] == nil {
					okLinks = false
				} else {
					walk(x.children[i], x, false)
				}
			}
		}
	}
	walk(t.root, nil, true)
	vAssert(okLinks, tag+"/links")
	vAssert(okOcc, tag+"/nodes-at-least-half-full")
	vAssert(t.size == count, tag+"/len-equals-key-count")
}

// VerifTreeLookupCost: a Get or Contains performs at most maxKVs key comparisons per level.
func VerifTreeLookupCost(height int, rootN int) {
	calls := 0
	m := NewMapCmp[vK, vK](func(a, b vK) int {
		calls++
		if a < b {
			return -3 // (any negative number means "less": not only -1)
		} else if a > b {
			return 5
		}
		return 0
	})
	b := &vBuild{zeroAt: -1, sign: 1}
	m.t.root = b.mk(height, nil, true, rootN)
	pre := vAssumeInv(0, m.t)
	m.t.size = pre.count
	k := vNondet[vK]("k")
	calls = 0
	m.Get(k)
	vAssert(calls <= maxKVs*height, "C03:lookup/get-at-most-maxkvs-comparisons-per-level")
	calls = 0
	m.Contains(k)
	vAssert(calls <= maxKVs*height, "C03:lookup/contains-at-most-maxkvs-comparisons-per-level")
	vCover("tree-lookup-cost")
}
