package tree

//verif:pkg ./container/tree
// VerifTreeConcurrentPuts args: height, rootN, second operation (0 Get, 1 Contains, 2 Put of another present key, 3 Len+First)
//verif:case C01 quick VerifTreeConcurrentPuts 1 -1 0..2 @unwind=600 @race=1
//verif:case C01 quick VerifTreeConcurrentPuts 2 1 0..2 @unwind=600 @race=1
//verif:case C01 quick VerifTreeConcurrentPuts 1..2 -1 0..2 @variant=bf4 @unwind=600 @race=1
//verif:case C01 thorough VerifTreeConcurrentPuts 2 2 0..2 @unwind=600 @race=1
//verif:case C01 thorough VerifTreeConcurrentPuts 3 1 0..2 @variant=bf4 @unwind=600 @race=1

// VerifTreeConcurrentPuts: the documented concurrency claim, decided by footprints: a Put of a
// key that is already present writes exactly one memory cell (that key's value slot) and that
// cell is neither read nor written by a Get / Contains / Put of another present key, so the
// two operations are free of data races in every interleaving and both take effect. The native
// replay runs the two operations in two goroutines under the race detector.
func VerifTreeConcurrentPuts(height int, rootN int, op2 int) {
	m, _ := vSymTree(height, rootN, 0, -1)
	t := m.t
	k1, k2 := vNondet[vK]("k1"), vNondet[vK]("k2")
	f1, _ := vFind(t, k1)
	f2, old2 := vFind(t, k2)
	vAssume(vAnd(vAnd(f1, f2), k1 != k2))
	v1, v2 := vNondet[vK]("v1"), vNondet[vK]("v2")
	var got2 vK
	var has2 bool
	conflict, writes1 := vConcurrently(
		func() { m.Put(k1, v1) },
		func() {
			switch op2 {
			case 0:
				got2 = m.Get(k2)
			case 1:
				has2 = m.Contains(k2)
			case 2:
				m.Put(k2, v2)
			}
		})
	vAssert(!conflict, "C01:concurrent/put-of-present-key-does-not-touch-what-others-read-or-write")
	vAssert(writes1 == 1, "C01:concurrent/put-of-present-key-writes-only-its-value-slot")
	g1 := m.Get(k1)
	vAssert(g1 == v1, "C01:concurrent/first-put-took-effect")
	switch op2 {
	case 0:
		vAssert(got2 == old2, "C01:concurrent/get-sees-its-value")
	case 1:
		vAssert(has2, "C01:concurrent/contains-sees-its-key")
	case 2:
		vAssert(m.Get(k2) == v2, "C01:concurrent/second-put-took-effect")
	}
	vCover("tree-concurrent-puts")
}
