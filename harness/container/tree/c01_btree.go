package tree

//verif:pkg ./container/tree
//verif:variant bf4 container/tree/btree.go "const branchFactor = 16" => "const branchFactor = 4"
//verif:variant bf6 container/tree/btree.go "const branchFactor = 16" => "const branchFactor = 6"
//
// fan-out 16 (the code as shipped). arguments: op, height, rootN (-1: symbolic/any), order, zeroAt
//verif:case C01,C03 quick VerifTreeStep 0..3 1 -1 0..1 -1..0 @unwind=600
//verif:case C01,C03 quick VerifTreeStep 0..3 2 1 0 -1 @unwind=600
//verif:case C01,C03 quick VerifTreeStep 0..1 2 2 0 0 @unwind=600
//verif:case C01,C03 thorough VerifTreeStep 0..3 2 1..2 0 -1..0 @unwind=600
//verif:case C01,C03 thorough VerifTreeStep 0..3 2 3 0 -1..1 @unwind=600
//verif:case C01,C03 thorough VerifTreeStep 0..1 2 15 0 -1 @unwind=600
//verif:case C01,C03 thorough VerifTreeStep 0..3 2 1..2 1 -1..1 @unwind=600
// reduced fan-out (only the constant is rewritten): heights 1..3
//verif:case C01,C03 quick VerifTreeStep 0..3 1..2 -1 0 -1..0 @variant=bf4 @unwind=600
//verif:case C01,C03 quick VerifTreeStep 0..3 3 1 0 -1 @variant=bf4 @unwind=600
//verif:case C01 quick VerifTreeStep 4..5 2 -1 0 -1 @variant=bf4 @unwind=600
//verif:case C01 thorough VerifTreeStep 4..5 3 1 0 -1 @variant=bf4 @unwind=600
//verif:case C01 thorough VerifTreeStep 4..5 2 1 0 -1 @unwind=600
//verif:case C01,C03 thorough VerifTreeStep 0..3 3 1 0 0..1 @variant=bf4 @unwind=600
//verif:case C01,C03 thorough VerifTreeStep 0..3 3 2..3 0 -1..0 @variant=bf4 @unwind=600
//verif:case C01,C03 quick VerifTreeStep 0..3 1..2 -1 1 -1 @variant=bf4 @unwind=600
//verif:case C01,C03 quick VerifTreeStep 0..3 1..2 -1 0 -1 @variant=bf6 @unwind=600
//verif:case C01,C03 thorough VerifTreeStep 0..3 3 1..2 1 -1 @variant=bf4 @unwind=600
//verif:case C01,C03 thorough VerifTreeStep 0..1 3 1 0 -1 @variant=bf6 @unwind=600
//verif:case C01,C03 thorough VerifTreeStep 0..1 4 1 0 -1 @variant=bf4 @unwind=600
//verif:case C01,C03 quick VerifTreeBase

type vK = int16

// order 0: natural order through a three-way compare (NewMapCmp);
// order 1: reversed order through a less function (NewMap -> xsort.LessCompare).
func vLT(order int, a, b vK) bool {
	if order == 1 {
		return a > b
	}
	return a < b
}

func vNewMap(order int) Map[vK, vK] {
	if order == 1 {
		return NewMap[vK, vK](func(a, b vK) bool { return a > b })
	}
	return NewMapCmp[vK, vK](func(a, b vK) int {
		if a < b {
			return -3 // (any negative number means "less": not only -1)
		} else if a > b {
			return 5
		}
		return 0
	})
}

// ---- symbolic tree construction (directly, not by insertion)

// vMkNode builds a subtree of the given height (1 = leaf).
//
// Keys are concrete, ascending constants: leaf number l holds 1000*(l-zeroAt) + 10*i in slot i and
// the separator that follows leaf l is 1000*(l-zeroAt) + 500. The B-tree is generic in K, so it can
// only copy keys, pass them to the comparator and produce K's zero value; every valid tree of a
// given shape is therefore order-isomorphic to this one, and the position of the zero value in
// the order is the case parameter zeroAt (-1: no key is the zero value). What stays symbolic:
// every leaf's occupancy, every value, and all operation arguments (which land anywhere between,
// on, below or above the constants).
// vLeafOccupancies, when set, restricts the symbolic occupancy of non-root leaves to these values.
var vLeafOccupancies []int8

type vBuild struct {
	sign    int // +1 natural order, -1 reversed order
	zeroAt  int
	nextLeaf int
}

func (b *vBuild) mk(height int, parent *node[vK, vK], isRoot bool, rootN int) *node[vK, vK] {
	x := &node[vK, vK]{parent: parent}
	if height == 1 {
		l := b.nextLeaf
		b.nextLeaf++
		n := vNondet[int8]("n")
		lo := int8(minKVs)
		if isRoot {
			lo = 0
		}
		vAssume(vAnd(lo <= n, n <= maxKVs))
		if isRoot && rootN >= 0 {
			vAssume(n == int8(rootN))
		}
		if vLeafOccupancies != nil && !isRoot {
			in := false
			for _, o := range vLeafOccupancies {
				in = vOr(in, n == o)
			}
			vAssume(in)
		}
		x.n = n
		for i := 0; i < maxKVs; i++ {
			live := int8(i) < n
			x.keys[i] = vIte(live, vK(b.sign*(1000*(l-b.zeroAt)+10*i)), 0)
			x.values[i] = vIte(live, vNondet[vK]("val"), 0)
		}
		return x
	}
	var n int
	if isRoot {
		if rootN >= 0 {
			n = rootN
		} else {
			n = 1 + vChoose(maxKVs)
		}
	} else {
		n = minKVs + vChoose(maxKVs-minKVs+1)
	}
	x.n = int8(n)
	for i := 0; i <= n; i++ {
		x.children[i] = b.mk(height-1, x, false, -1)
		if i < n {
			x.keys[i] = vK(b.sign * (1000*(b.nextLeaf-1-b.zeroAt) + 500))
			x.values[i] = vNondet[vK]("val")
		}
	}
	return x
}

// ---- invariant, evaluated on a concrete pointer structure with symbolic contents

type vInvResult struct {
	sorted    bool // in-order strictly ascending, separators between subtrees
	occupancy bool // every non-root node has minKVs <= n <= maxKVs; root 0/1 <= n
	cleared   bool // slots >= n hold zero values, child slots > n are nil
	links     bool // parent back-links, n+1 children or none, uniform leaf depth
	count     int  // number of keys (symbolic)
	height    int
}

func vWalk(order int, x *node[vK, vK], isRoot bool, parent *node[vK, vK], hasLo bool, lo vK, hasHi bool, hi vK, depth int, leafDepth *int, r *vInvResult) {
	if x.parent != parent {
		r.links = false
	}
	leaf := x.children[0] == nil
	if leaf {
		if *leafDepth == 0 {
			*leafDepth = depth
		} else if *leafDepth != depth {
			r.links = false
		}
		n := x.n
		minN := int8(minKVs)
		if isRoot {
			minN = 0
		}
		r.occupancy = vAnd(r.occupancy, vAnd(minN <= n, n <= maxKVs))
		r.count += int(n)
		for i := 0; i < maxKVs; i++ {
			live := int8(i) < n
			k := x.keys[i]
			if hasLo {
				r.sorted = vAnd(r.sorted, vImplies(live, vLT(order, lo, k)))
			}
			if hasHi {
				r.sorted = vAnd(r.sorted, vImplies(live, vLT(order, k, hi)))
			}
			if i+1 < maxKVs {
				r.sorted = vAnd(r.sorted, vImplies(int8(i+1) < n, vLT(order, k, x.keys[i+1])))
			}
			r.cleared = vAnd(r.cleared, vImplies(!live, vAnd(k == 0, x.values[i] == 0)))
		}
		for i := 0; i < branchFactor; i++ {
			if x.children[i] != nil {
				r.links = false
			}
		}
		return
	}
	n := int(vConcretize(int(x.n)))
	minN := minKVs
	if isRoot {
		minN = 1
	}
	if n < minN || n > maxKVs {
		r.occupancy = false
		if n < 0 || n > maxKVs {
			return
		}
	}
	r.count += n
	for i := 0; i < maxKVs; i++ {
		if i < n {
			k := x.keys[i]
			if hasLo {
				r.sorted = vAnd(r.sorted, vLT(order, lo, k))
			}
			if hasHi {
				r.sorted = vAnd(r.sorted, vLT(order, k, hi))
			}
			if i+1 < n {
				r.sorted = vAnd(r.sorted, vLT(order, k, x.keys[i+1]))
			}
		} else {
			r.cleared = vAnd(r.cleared, vAnd(x.keys[i] == 0, x.values[i] == 0))
		}
	}
	for i := 0; i < branchFactor; i++ {
		c := x.children[i]
		if i > n {
			if c != nil {
				r.cleared = false
			}
			continue
		}
		if c == nil {
			r.links = false
			continue
		}
		cHasLo, cLo, cHasHi, cHi := hasLo, lo, hasHi, hi
		if i > 0 {
			cHasLo, cLo = true, x.keys[i-1]
		}
		if i < n {
			cHasHi, cHi = true, x.keys[i]
		}
		vWalk(order, c, false, x, cHasLo, cLo, cHasHi, cHi, depth+1, leafDepth, r)
	}
}

func vInv(order int, t *btree[vK, vK]) vInvResult {
	r := vInvResult{sorted: true, occupancy: true, cleared: true, links: true}
	if t.root == nil {
		r.links = false
		return r
	}
	ld := 0
	vWalk(order, t.root, true, nil, false, 0, false, 0, 1, &ld, &r)
	r.height = ld
	return r
}

// vFind scans every live slot of the tree for key q (independent of the code's search).
func vFindIn(x *node[vK, vK], q vK, found *bool, val *vK) {
	if x == nil {
		return
	}
	leaf := x.children[0] == nil
	for i := 0; i < maxKVs; i++ {
		hit := vAnd(int8(i) < x.n, x.keys[i] == q)
		*found = vOr(*found, hit)
		*val = vIte(hit, x.values[i], *val)
	}
	if !leaf {
		n := int(vConcretize(int(x.n)))
		for i := 0; i <= n && i < branchFactor; i++ {
			vFindIn(x.children[i], q, found, val)
		}
	}
}

func vFind(t *btree[vK, vK], q vK) (bool, vK) {
	found, val := false, vK(0)
	vFindIn(t.root, q, &found, &val)
	return found, val
}

// vExtremes: is e the smallest (first) / largest key under the order?
func vAllGE(order int, x *node[vK, vK], e vK, wantMin bool, ok *bool) {
	if x == nil {
		return
	}
	for i := 0; i < maxKVs; i++ {
		live := int8(i) < x.n
		if wantMin {
			*ok = vAnd(*ok, vImplies(live, !vLT(order, x.keys[i], e)))
		} else {
			*ok = vAnd(*ok, vImplies(live, !vLT(order, e, x.keys[i])))
		}
	}
	if x.children[0] != nil {
		n := int(vConcretize(int(x.n)))
		for i := 0; i <= n && i < branchFactor; i++ {
			vAllGE(order, x.children[i], e, wantMin, ok)
		}
	}
}

// vPairwise: the all-pairs form of "keys ascending within a node". It is implied by the adjacent
// form (transitivity of <) and is assumed in addition only to spare the solver the transitivity
// reasoning at the bit level.
func vPairwise(order int, x *node[vK, vK]) bool {
	ok := true
	if x == nil {
		return ok
	}
	for i := 0; i < maxKVs; i++ {
		for j := i + 2; j < maxKVs; j++ {
			ok = vAnd(ok, vImplies(int8(j) < x.n, vLT(order, x.keys[i], x.keys[j])))
		}
	}
	if x.children[0] != nil {
		n := int(vConcretize(int(x.n)))
		for i := 0; i <= n && i < branchFactor; i++ {
			ok = vAnd(ok, vPairwise(order, x.children[i]))
		}
	}
	return ok
}

func vAssumeInv(order int, t *btree[vK, vK]) vInvResult {
	r := vInv(order, t)
	vAssume(r.sorted)
	vAssume(r.occupancy)
	vAssume(r.cleared)
	vAssume(r.links)
	return r
}

func vAssertInv(order int, t *btree[vK, vK], tag string) vInvResult {
	r := vInv(order, t)
	vAssert(r.links, "C03:"+tag+"/links-balance-children")
	vAssert(r.occupancy, "C03:"+tag+"/nodes-at-least-half-full")
	vAssert(r.sorted, "C03:"+tag+"/search-order")
	vAssert(r.cleared, "C03:"+tag+"/vacated-slots-cleared")
	vAssert(t.size == r.count, "C03:"+tag+"/len-equals-key-count")
	// depth bound: n >= 2*(minKVs+1)^(h-1) - 1  (h levels)
	if r.height >= 2 {
		min := 2
		for i := 0; i < r.height-1; i++ {
			min *= minKVs + 1
		}
		vAssert(r.count >= min-1, "C03:"+tag+"/depth-bound")
	}
	return r
}

func vSymTree(height int, rootN int, order int, zeroAt int) (Map[vK, vK], vInvResult) {
	m := vNewMap(order)
	t := m.t
	b := &vBuild{zeroAt: zeroAt, sign: 1}
	if order == 1 {
		b.sign = -1
	}
	t.root = b.mk(height, nil, true, rootN)
	t.gen = vNondetInt("gen")
	pre := vAssumeInv(order, t)
	t.size = pre.count
	return m, pre
}

// VerifTreeBase: the empty tree satisfies the invariant.
func VerifTreeBase() {
	m := vNewMap(0)
	vAssertInv(0, m.t, "base")
	vAssert(m.Len() == 0, "C01:base/len")
	k, v := m.First()
	vAssert(vAnd(k == 0, v == 0), "C01:base/first-zero-when-empty")
	k, v = m.Last()
	vAssert(vAnd(k == 0, v == 0), "C01:base/last-zero-when-empty")
	vAssert(!m.Contains(5), "C01:base/contains")
	vCover("tree-base")
}

// VerifTreeStep: one operation on an arbitrary valid tree of the given height.
func VerifTreeStep(op int, height int, rootN int, order int, zeroAt int) {
	m, pre := vSymTree(height, rootN, order, zeroAt)
	t := m.t
	m2 := m // copies denote the same collection
	q := vNondet[vK]("q")
	found0, val0 := vFind(t, q)
	k := vNondet[vK]("k")
	foundK, valK := vFind(t, k)
	switch op {
	case 0: // Put
		v := vNondet[vK]("v")
		m2.Put(k, v)
		post := vAssertInv(order, t, "put")
		found1, val1 := vFind(t, q)
		vAssert(found1 == vOr(q == k, found0), "C01:put/membership")
		vAssert(vImplies(found1, val1 == vIte(q == k, v, val0)), "C01:put/values")
		vAssert(m.Len() == pre.count+vIte(foundK, 0, 1), "C01:put/len")
		vAssert(post.height >= pre.height, "C03:put/height")
		vCover("tree-put")
	case 1: // Delete
		m2.Delete(k)
		post := vAssertInv(order, t, "delete")
		found1, val1 := vFind(t, q)
		vAssert(found1 == vAnd(q != k, found0), "C01:delete/membership")
		vAssert(vImplies(found1, val1 == val0), "C01:delete/values")
		vAssert(m.Len() == pre.count-vIte(foundK, 1, 0), "C01:delete/len")
		_ = post
		vCover("tree-delete")
	case 4, 5: // Put / Delete followed by a full iteration: what a user sees after the mutation
		if op == 4 {
			m2.Put(k, vNondet[vK]("v"))
		} else {
			m2.Delete(k)
		}
		it := m.Iterate()
		n := 0
		var prev vK
		panicked := vTry(func() {
			for i := 0; i < vSlots(height)+3; i++ {
				kv, ok := it.Next()
				if !ok {
					break
				}
				f, v := vFind(t, kv.Key)
				vAssert(vAnd(f, v == kv.Value), "C01:mutate-iterate/yields-current-entries")
				if n > 0 {
					vAssert(vLT(order, prev, kv.Key), "C01:mutate-iterate/ascending")
				}
				prev = kv.Key
				n++
			}
		})
		vAssert(!panicked, "C01:mutate-iterate/no-panic")
		vAssert(n == m.Len(), "C01:mutate-iterate/visits-every-entry-once")
		vCover("tree-mutate-iterate")
	case 2: // Get / Contains, with the comparison budget of C03
		g := m2.Get(k)
		c := m2.Contains(k)
		vAssert(c == foundK, "C01:contains")
		vAssert(g == vIte(foundK, valK, 0), "C01:get")
		vAssertInv(order, t, "lookup")
		vCover("tree-lookup")
	case 3: // First / Last / Len
		fk, fv := m2.First()
		lk, lv := m2.Last()
		vAssert(m2.Len() == pre.count, "C01:len")
		if pre.count == 0 {
			vAssert(vAnd(vAnd(fk == 0, fv == 0), vAnd(lk == 0, lv == 0)), "C01:first-last/zero-when-empty")
		} else {
			ff, fval := vFind(t, fk)
			lf, lval := vFind(t, lk)
			vAssert(vAnd(ff, fval == fv), "C01:first/is-an-entry")
			vAssert(vAnd(lf, lval == lv), "C01:last/is-an-entry")
			okMin, okMax := true, true
			vAllGE(order, t.root, fk, true, &okMin)
			vAllGE(order, t.root, lk, false, &okMax)
			vAssert(okMin, "C01:first/is-minimum")
			vAssert(okMax, "C01:last/is-maximum")
		}
		vCover("tree-first-last")
	}
}
