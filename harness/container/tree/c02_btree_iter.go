package tree

import "github.com/bradenaw/juniper/iterator"

//verif:pkg ./container/tree
// VerifTreeRange args: reverse(0/1), height, rootN, zeroAt
//verif:case C01 thorough VerifTreeRange 0..1 1 -1 -1..0 @unwind=600
//verif:case C01 quick VerifTreeRange 0..1 1 -1 -1 @variant=bf4 @unwind=600
//verif:case C01 quick VerifTreeRange 0..1 2 1 -1 @variant=bf4 @unwind=600
//verif:case C01 thorough VerifTreeRange 0..1 2 2..3 -1 @variant=bf4 @unwind=600
//verif:case C01 thorough VerifTreeRange 0..1 1..2 -1 0 @variant=bf4 @unwind=600
//verif:case C01 thorough VerifTreeRange 0..1 3 1 -1 @variant=bf4 @unwind=600
//verif:case C01 thorough VerifTreeRange 0..1 2 1 -1 @unwind=600
//verif:case C01 thorough VerifTreeRange 0..1 3 2 -1 @variant=bf4 @unwind=600
//verif:case C01 thorough VerifTreeRange 0..1 1..2 -1 -1 @variant=bf6 @unwind=600
// VerifTreeIter args: reverse(0/1), height, rootN, mutation(0 put,1 delete), nextsBefore, boundsMode
// boundsMode 0: the near (start-side) bound symbolic of all three kinds, far side unbounded;
//            1: near side unbounded, far bound symbolic of all three kinds;
//            2: both symbolic (all 9 kind pairs).
//verif:case C02 quick VerifTreeIter 0..1 1 -1 0..1 0..2 2 @variant=bf4 @unwind=600
//verif:case C02 quick VerifTreeIter 0..1 2 1 0..1 0..2 0..1 @variant=bf4 @unwind=600
//verif:case C02 thorough VerifTreeIter 0..1 2 2..3 0..1 0..2 0..1 @variant=bf4 @unwind=600
//verif:case C02 thorough VerifTreeIter 0..1 3 1 0..1 0..2 0 @variant=bf4 @unwind=600
//verif:case C02 thorough VerifTreeIter 0..1 1 -1 0..1 0..2 0..1 @unwind=600
//verif:case C02 thorough VerifTreeIter 0..1 2 1 0..1 0..2 0 @unwind=600
//verif:case C02 thorough VerifTreeIter 0..1 2 1 0..1 1..3 0..1 @variant=bf6 @unwind=600

type vBounds struct {
	loKind, hiKind int // 0 unbounded, 1 included, 2 excluded
	lo, hi         vK
}

func vSymBounds() vBounds {
	return vBounds{loKind: vChoose(3), hiKind: vChoose(3), lo: vNondet[vK]("lo"), hi: vNondet[vK]("hi")}
}

func (b vBounds) bound(kind int, k vK) Bound[vK] {
	switch kind {
	case 1:
		return Included(k)
	case 2:
		return Excluded(k)
	}
	return Unbounded[vK]()
}

func (b vBounds) lower() Bound[vK] { return b.bound(b.loKind, b.lo) }
func (b vBounds) upper() Bound[vK] { return b.bound(b.hiKind, b.hi) }

// in: is key k inside the bounds (natural order)?
func (b vBounds) in(k vK) bool {
	ok := true
	switch b.loKind {
	case 1:
		ok = vAnd(ok, k >= b.lo)
	case 2:
		ok = vAnd(ok, k > b.lo)
	}
	switch b.hiKind {
	case 1:
		ok = vAnd(ok, k <= b.hi)
	case 2:
		ok = vAnd(ok, k < b.hi)
	}
	return ok
}

// vCountIn: number of live entries inside the bounds (branch-free scan).
func vCountIn(x *node[vK, vK], b vBounds) int {
	if x == nil {
		return 0
	}
	c := 0
	for i := 0; i < maxKVs; i++ {
		c += vIte(vAnd(int8(i) < x.n, b.in(x.keys[i])), 1, 0)
	}
	if x.children[0] != nil {
		n := int(vConcretize(int(x.n)))
		for i := 0; i <= n && i < branchFactor; i++ {
			c += vCountIn(x.children[i], b)
		}
	}
	return c
}

func vSlots(height int) int {
	// upper bound on the number of keys of a tree of this height
	n := maxKVs
	for i := 1; i < height; i++ {
		n = n*branchFactor + maxKVs
	}
	return n
}

// VerifTreeRange: Range / RangeReverse over an arbitrary valid tree with symbolic bounds of all 9
// kind pairs: strictly monotone, inside the bounds, every item a current entry, exactly as many
// as there are entries inside the bounds, end is sticky.
func VerifTreeRange(reverse int, height int, rootN int, zeroAt int) {
	m, _ := vSymTree(height, rootN, 0, zeroAt)
	t := m.t
	b := vSymBounds()
	want := vCountIn(t.root, b)
	var it iterator.Iterator[KVPair[vK, vK]]
	if reverse == 1 {
		it = m.RangeReverse(b.lower(), b.upper())
	} else {
		it = m.Range(b.lower(), b.upper())
	}
	got := 0
	var prev vK
	ended := false
	for i := 0; i < vSlots(height)+1; i++ {
		kv, ok := it.Next()
		if !ok {
			ended = true
			break
		}
		f, v := vFind(t, kv.Key)
		vAssert(f, "C01:range/yields-entries")
		vAssert(v == kv.Value, "C01:range/current-value")
		vAssert(b.in(kv.Key), "C01:range/inside-bounds")
		if got > 0 {
			if reverse == 1 {
				vAssert(kv.Key < prev, "C01:range/strictly-descending")
			} else {
				vAssert(kv.Key > prev, "C01:range/strictly-ascending")
			}
		}
		prev = kv.Key
		got++
	}
	vAssert(ended, "C01:range/terminates")
	vAssert(got == want, "C01:range/exactly-the-entries-inside-the-bounds")
	_, again := it.Next()
	vAssert(!again, "C01:range/end-is-sticky")
	vCover("tree-range")
}

// VerifTreeIter: an iterator with symbolic bounds, `before` Next calls, one Put or Delete of a
// symbolic key (which may split, merge, rotate or unlink the node the cursor is parked in,
// collapse the root or empty the tree), then Next until the end.
func VerifTreeIter(reverse int, height int, rootN int, mutation int, before int, boundsMode int) {
	vLeafOccupancies = nil
	if branchFactor == 16 && height >= 2 {
		// at the shipped fan-out only the occupancies that matter structurally: minimum (merge /
		// steal target), minimum+1 (steal source) and full (split)
		vLeafOccupancies = []int8{minKVs, minKVs + 1, maxKVs}
	}
	m, _ := vSymTree(height, rootN, 0, -1)
	vLeafOccupancies = nil
	t := m.t
	var b vBounds
	switch {
	case boundsMode == 2:
		b = vSymBounds()
	case (boundsMode == 0) == (reverse == 0): // symbolic lower bound
		b = vBounds{loKind: vChoose(3), lo: vNondet[vK]("lo")}
	default: // symbolic upper bound
		b = vBounds{hiKind: vChoose(3), hi: vNondet[vK]("hi")}
	}
	var it iterator.Iterator[KVPair[vK, vK]]
	if reverse == 1 {
		it = m.RangeReverse(b.lower(), b.upper())
	} else {
		it = m.Range(b.lower(), b.upper())
	}
	beyond := func(a, ref vK) bool { // a lies strictly beyond ref in the direction of travel
		if reverse == 1 {
			return a < ref
		}
		return a > ref
	}
	// skolem key for the no-skip clause
	s := vNondet[vK]("skolem")
	sPresent, _ := vFind(t, s)
	sAlways := vAnd(sPresent, b.in(s))
	sYielded, sPassed := false, false
	// inserted-key bookkeeping
	inserted := false
	var kIns vK
	insYielded := false
	insEligible := false
	firstAfter := true

	got := 0
	var prev vK
	ended := false
	step := func() bool {
		var kv KVPair[vK, vK]
		var ok bool
		p := vTry(func() { kv, ok = it.Next() })
		vAssert(!p, "C02:iter/never-panics")
		if p {
			return false
		}
		if !ok {
			vAssert(vImplies(vAnd(sAlways, !sPassed), sYielded), "C02:iter/no-skip-at-end")
			ended = true
			return false
		}
		vAssert(!ended, "C02:iter/exhaustion-is-sticky")
		f, v := vFind(t, kv.Key)
		vAssert(f, "C02:iter/yields-keys-present-at-that-moment")
		vAssert(v == kv.Value, "C02:iter/current-value")
		vAssert(b.in(kv.Key), "C02:iter/inside-bounds")
		if got > 0 {
			vAssert(beyond(kv.Key, prev), "C02:iter/strictly-monotone")
		}
		// no-skip: the first time the iterator moves past s
		passedNow := beyond(kv.Key, s)
		vAssert(vImplies(vAnd(vAnd(passedNow, !sPassed), sAlways), sYielded), "C02:iter/no-skip")
		sPassed = vOr(sPassed, passedNow)
		sYielded = vOr(sYielded, kv.Key == s)
		if inserted {
			if firstAfter {
				insEligible = vAnd(beyond(kIns, kv.Key), b.in(kIns))
				firstAfter = false
			}
			insYielded = vOr(insYielded, kv.Key == kIns)
		}
		prev = kv.Key
		got++
		return true
	}
	for i := 0; i < before; i++ {
		if !step() {
			break
		}
	}
	k := vNondet[vK]("k")
	if mutation == 0 {
		was, _ := vFind(t, k)
		m.Put(k, vNondet[vK]("v"))
		if !was {
			inserted, kIns = true, k
		}
	} else {
		m.Delete(k)
	}
	stillS, _ := vFind(t, s)
	sAlways = vAnd(sAlways, stillS)
	for i := 0; i < vSlots(height)+3 && !ended; i++ {
		if !step() {
			break
		}
	}
	vAssert(ended, "C02:iter/terminates")
	if inserted {
		vAssert(vImplies(insEligible, insYielded), "C02:iter/inserted-key-beyond-is-yielded")
	}
	_, again := it.Next()
	vAssert(!again, "C02:iter/exhaustion-is-sticky")
	vCover("tree-iter")
}
