package tree

import "github.com/bradenaw/juniper/iterator"

//verif:pkg ./container/tree
// VerifTreeIter2 args: height, rootN, first mutation (0 put, 1 delete), second mutation (0 put, 1 delete, 2 none)
//verif:case C02 quick VerifTreeIter2 1 -1 0..1 0..2 @variant=bf4 @unwind=600
//verif:case C02 quick VerifTreeIter2 2 1 0..1 2 @variant=bf4 @unwind=600
//verif:case C02 thorough VerifTreeIter2 2 1..2 0..1 0..1 @variant=bf4 @unwind=600
//verif:case C02 thorough VerifTreeIter2 1 -1 0..1 0..2 @unwind=600

// vIterCheck carries the oracle state of one live iterator (same obligations as VerifTreeIter).
type vIterCheck struct {
	t       *btree[vK, vK]
	it      iterator.Iterator[KVPair[vK, vK]]
	reverse bool
	got     int
	prev    vK
	ended   bool
	s       vK // skolem key for the no-skip clause
	sAlways bool
	sYielded, sPassed bool
	tag     string
}

func (c *vIterCheck) beyond(a, ref vK) bool {
	if c.reverse {
		return a < ref
	}
	return a > ref
}

func (c *vIterCheck) afterMutation() {
	still, _ := vFind(c.t, c.s)
	c.sAlways = vAnd(c.sAlways, still)
}

func (c *vIterCheck) step() bool {
	var kv KVPair[vK, vK]
	var ok bool
	p := vTry(func() { kv, ok = c.it.Next() })
	vAssert(!p, "C02:"+c.tag+"/never-panics")
	if p {
		return false
	}
	if !ok {
		vAssert(vImplies(vAnd(c.sAlways, !c.sPassed), c.sYielded), "C02:"+c.tag+"/no-skip-at-end")
		c.ended = true
		return false
	}
	vAssert(!c.ended, "C02:"+c.tag+"/exhaustion-is-sticky")
	f, v := vFind(c.t, kv.Key)
	vAssert(f, "C02:"+c.tag+"/yields-keys-present-at-that-moment")
	vAssert(v == kv.Value, "C02:"+c.tag+"/current-value")
	if c.got > 0 {
		vAssert(c.beyond(kv.Key, c.prev), "C02:"+c.tag+"/strictly-monotone")
	}
	passedNow := c.beyond(kv.Key, c.s)
	vAssert(vImplies(vAnd(vAnd(passedNow, !c.sPassed), c.sAlways), c.sYielded), "C02:"+c.tag+"/no-skip")
	c.sPassed = vOr(c.sPassed, passedNow)
	c.sYielded = vOr(c.sYielded, kv.Key == c.s)
	c.prev = kv.Key
	c.got++
	return true
}

// VerifTreeIter2: a forward and a reverse iterator are live at the same time over the whole
// collection; one Next each, a mutation, one Next each, optionally a second mutation, then both
// are drained alternately.
func VerifTreeIter2(height int, rootN int, mut1 int, mut2 int) {
	m, _ := vSymTree(height, rootN, 0, -1)
	t := m.t
	mk := func(reverse bool, tag string) *vIterCheck {
		c := &vIterCheck{t: t, reverse: reverse, tag: tag, s: vNondet[vK]("skolem")}
		if reverse {
			c.it = m.RangeReverse(Unbounded[vK](), Unbounded[vK]())
		} else {
			c.it = m.Iterate()
		}
		present, _ := vFind(t, c.s)
		c.sAlways = present
		return c
	}
	a, b := mk(false, "two-iters-forward"), mk(true, "two-iters-reverse")
	mutate := func(kind int) {
		k := vNondet[vK]("k")
		switch kind {
		case 0:
			m.Put(k, vNondet[vK]("v"))
		case 1:
			m.Delete(k)
		default:
			return
		}
		a.afterMutation()
		b.afterMutation()
	}
	a.step()
	b.step()
	mutate(mut1)
	a.step()
	b.step()
	mutate(mut2)
	for i := 0; i < vSlots(height)+3 && !(a.ended && b.ended); i++ {
		if !a.ended {
			a.step()
		}
		if !b.ended {
			b.step()
		}
	}
	vAssert(a.ended && b.ended, "C02:two-iters/terminate")
	vCover("tree-two-iters")
}
