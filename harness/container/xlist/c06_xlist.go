package xlist

//verif:pkg ./container/xlist
//verif:case C06 quick VerifListStep 0..4 1
//verif:case C06 quick VerifListStep 0..3 2
//verif:case C06 thorough VerifListStep 5..6 1
//verif:case C06 thorough VerifListStep 4..5 2
//verif:case C06 thorough VerifListStep 0..3 3
//verif:case C06 quick VerifListBase

type vListModel struct {
	l     *List[int]
	nodes []*Node[int] // handle table (every node ever created)
	vals  []int        // Value given at creation
	seq   []int        // ideal sequence of handles (indices into nodes)
}

// vSymList builds a well-formed list of m nodes directly (not through the API).
func vSymList(m int) *vListModel {
	md := &vListModel{l: &List[int]{}}
	for i := 0; i < m; i++ {
		v := vNondetInt("value")
		md.nodes = append(md.nodes, &Node[int]{Value: v})
		md.vals = append(md.vals, v)
		md.seq = append(md.seq, i)
	}
	for i := 0; i < m; i++ {
		if i > 0 {
			md.nodes[i].prev = md.nodes[i-1]
		}
		if i < m-1 {
			md.nodes[i].next = md.nodes[i+1]
		}
	}
	if m > 0 {
		md.l.front = md.nodes[0]
		md.l.back = md.nodes[m-1]
	}
	md.l.size = m
	return md
}

func (md *vListModel) add(n *Node[int], v int) int {
	md.nodes = append(md.nodes, n)
	md.vals = append(md.vals, v)
	return len(md.nodes) - 1
}

func (md *vListModel) pos(h int) int {
	for i, x := range md.seq {
		if x == h {
			return i
		}
	}
	return -1
}

func (md *vListModel) removeAt(p int) {
	md.seq = append(append([]int{}, md.seq[:p]...), md.seq[p+1:]...)
}

func (md *vListModel) insertAt(p int, h int) {
	md.seq = append(append(append([]int{}, md.seq[:p]...), h), md.seq[p:]...)
}

// check: forward walk == ideal sequence, backward walk == its mirror, Len, end links,
// handle identity and Value untouched, removed nodes have neither neighbour.
func (md *vListModel) check(tag string) {
	l := md.l
	n := len(md.seq)
	vAssert(l.Len() == n, tag+"/len")
	i := 0
	for x := l.Front(); x != nil; x = x.Next() {
		vAssert(i < n, tag+"/forward-walk")
		if i >= n {
			return
		}
		vAssert(x == md.nodes[md.seq[i]], tag+"/forward-walk")
		i++
	}
	vAssert(i == n, tag+"/forward-walk")
	i = n - 1
	for x := l.Back(); x != nil; x = x.Prev() {
		vAssert(i >= 0, tag+"/backward-walk")
		if i < 0 {
			return
		}
		vAssert(x == md.nodes[md.seq[i]], tag+"/backward-walk")
		i--
	}
	vAssert(i == -1, tag+"/backward-walk")
	if n > 0 {
		vAssert(l.Front().Prev() == nil, tag+"/first-has-no-prev")
		vAssert(l.Back().Next() == nil, tag+"/last-has-no-next")
	} else {
		vAssert(vAnd(l.Front() == nil, l.Back() == nil), tag+"/empty-ends")
	}
	for h, nd := range md.nodes {
		vAssert(nd.Value == md.vals[h], tag+"/value-untouched")
	}
}

func (md *vListModel) removedIsolated(h int, tag string) {
	vAssert(vAnd(md.nodes[h].Next() == nil, md.nodes[h].Prev() == nil), tag+"/removed-node-isolated")
}

// VerifListBase: the zero value is the empty list.
func VerifListBase() {
	md := &vListModel{l: &List[int]{}}
	md.check("base")
	vCover("list-base")
}

// one symbolic operation; handles are symbolic indices concretised through the solver
func (md *vListModel) step(tag string) {
	l := md.l
	n := len(md.seq)
	op := vNondetInt("op")
	vAssume(vAnd(0 <= op, op <= 9))
	op = vConcretize(op)
	pick := func(name string) int {
		i := vNondetInt(name)
		vAssume(vAnd(0 <= i, i < n))
		return md.seq[vConcretize(i)]
	}
	v := vNondetInt("value")
	switch op {
	case 0:
		h := md.add(l.PushFront(v), v)
		md.insertAt(0, h)
	case 1:
		h := md.add(l.PushBack(v), v)
		md.insertAt(n, h)
	case 2:
		if n == 0 {
			return
		}
		mark := pick("mark")
		h := md.add(l.InsertBefore(v, md.nodes[mark]), v)
		md.insertAt(md.pos(mark), h)
	case 3:
		if n == 0 {
			return
		}
		mark := pick("mark")
		h := md.add(l.InsertAfter(v, md.nodes[mark]), v)
		md.insertAt(md.pos(mark)+1, h)
	case 4:
		if n == 0 {
			return
		}
		node := pick("node")
		l.Remove(md.nodes[node])
		md.removeAt(md.pos(node))
		md.removedIsolated(node, tag)
	case 5, 6:
		if n == 0 {
			return
		}
		node, mark := pick("node"), pick("mark")
		if op == 5 {
			l.MoveBefore(md.nodes[node], md.nodes[mark])
		} else {
			l.MoveAfter(md.nodes[node], md.nodes[mark])
		}
		if node != mark {
			md.removeAt(md.pos(node))
			if op == 5 {
				md.insertAt(md.pos(mark), node)
			} else {
				md.insertAt(md.pos(mark)+1, node)
			}
		}
	case 7:
		if n == 0 {
			return
		}
		node := pick("node")
		l.MoveToFront(md.nodes[node])
		md.removeAt(md.pos(node))
		md.insertAt(0, node)
	case 8:
		if n == 0 {
			return
		}
		node := pick("node")
		l.MoveToBack(md.nodes[node])
		md.removeAt(md.pos(node))
		md.insertAt(len(md.seq), node)
	case 9:
		l.Clear()
		md.seq = nil
	}
	md.check(tag)
}

// VerifListStep: `steps` symbolic operations from an arbitrary well-formed list of m nodes.
func VerifListStep(m int, steps int) {
	md := vSymList(m)
	md.check("pre")
	for s := 0; s < steps; s++ {
		md.step("step")
	}
	vCover("list-step")
}
