package xheap

//verif:pkg ./container/xheap
//verif:case C15 quick VerifHeapIter 0..4 0..5
//verif:case C15 thorough VerifHeapIter 0..4 6..7
//verif:case C15 quick VerifPQIter 0..4 0..5
//verif:case C15 thorough VerifPQIter 0..4 6..7

// drain continues an iteration after a mid-iteration operation and checks snapshot-or-panic:
// every yielded element is a distinct member of the snapshot, the end is reported only after
// the whole snapshot has been yielded, otherwise the stopping event is a panic.
func vDrainIDs(next func() (int, bool), seen []bool, count int, n int, mustPanic bool, tag string) {
	ended := false
	for calls := 0; calls < n+3; calls++ {
		var id int
		var ok bool
		p := vTry(func() { id, ok = next() })
		if calls == 0 && mustPanic {
			vAssert(p, tag+"/next-call-panics-after-add-or-remove")
		}
		if p {
			vCover("iter-panics-" + tag)
			return
		}
		if !ok {
			ended = true
			break
		}
		vAssert(vAnd(0 <= id, id < len(seen)), tag+"/yields-snapshot-element")
		idc := vConcretize(id)
		if idc < 0 || idc >= len(seen) {
			return
		}
		vAssert(idc < n, tag+"/yields-snapshot-element")
		vAssert(!seen[idc], tag+"/yields-each-element-once")
		seen[idc] = true
		count++
	}
	vAssert(ended, tag+"/terminates")
	vAssert(count == n, tag+"/end-only-after-whole-snapshot")
	_, again := next()
	vAssert(!again, tag+"/end-is-sticky")
	vCover("iter-completes-" + tag)
}

// vDrainFresh: the operation happened between Iterate() and the first Next(). Whether the
// iteration "started" at Iterate() (then the first Next panics) or at the first Next (then it
// walks the contents as they are now) is the implementation's choice; what it must not do is
// walk something that is neither: it yields exactly the current contents, each once, or panics.
func vDrainFresh(next func() (int, bool), want []bool, tag string) {
	seen := make([]bool, len(want))
	for calls := 0; calls < len(want)+2; calls++ {
		var id int
		var ok bool
		if vTry(func() { id, ok = next() }) {
			vCover("iter-fresh-panics-" + tag)
			return
		}
		if !ok {
			for i := range want {
				vAssert(seen[i] == want[i], tag+"/before-first-next/end-only-after-the-current-contents")
			}
			vCover("iter-fresh-completes-" + tag)
			return
		}
		vAssert(vAnd(0 <= id, id < len(want)), tag+"/before-first-next/yields-current-contents")
		idc := vConcretize(id)
		if idc < 0 || idc >= len(want) {
			return
		}
		vAssert(want[idc], tag+"/before-first-next/yields-current-contents")
		vAssert(!seen[idc], tag+"/before-first-next/yields-each-element-once")
		seen[idc] = true
	}
	vAssert(false, tag+"/before-first-next/terminates")
}

// VerifHeapIter: Heap.Iterate with one mid-iteration operation after j >= 1 Next calls
// (j = 0 for op 0: plain iteration of an unchanged heap).
func VerifHeapIter(op int, n int) {
	h, _ := vSymHeap(n, 0)
	it := h.Iterate()
	seen := make([]bool, n+1)
	next := func() (int, bool) {
		x, ok := it.Next()
		return x.ID, ok
	}
	j := vNondetInt("consumed")
	vAssume(vAnd(0 <= j, j <= n))
	jc := vConcretize(j)
	for k := 0; k < jc; k++ {
		id, ok := next()
		vAssert(ok, "heapiter/unchanged-yields-all")
		idc := vConcretize(id)
		vAssert(vAnd(0 <= idc, idc < n), "heapiter/unchanged-yields-contents")
		vAssert(!seen[idc], "heapiter/unchanged-yields-each-once")
		seen[idc] = true
	}
	tag, structural := "none", false
	popped := -1
	switch op {
	case 1:
		tag, structural = "push", true
		h.Push(vItem{P: vNondet[vPrio]("x"), ID: n})
	case 2:
		tag, structural = "pop", true
		if n == 0 {
			return
		}
		popped = vConcretize(h.Pop().ID)
	case 3:
		tag = "grow"
		h.Grow(4)
	case 4:
		tag = "shrink"
		h.Shrink(0)
	}
	if jc == 0 && op != 0 {
		want := make([]bool, n+1)
		for i := 0; i < n; i++ {
			want[i] = i != popped
		}
		want[n] = op == 1
		vDrainFresh(next, want, "heapiter/"+tag)
		return
	}
	vDrainIDs(next, seen, jc, n, structural, "heapiter/"+tag)
}

// VerifPQIter: PriorityQueue.Iterate with Update (existing key: any new priority; new key),
// Remove, Pop in mid-iteration.
func VerifPQIter(op int, n int) {
	q, _ := vSymPQ(n, 0)
	it := q.Iterate()
	seen := make([]bool, n+1)
	next := func() (int, bool) { return it.Next() }
	j := vNondetInt("consumed")
	vAssume(vAnd(0 <= j, j <= n))
	jc := vConcretize(j)
	for k := 0; k < jc; k++ {
		id, ok := next()
		vAssert(ok, "pqiter/unchanged-yields-all")
		idc := vConcretize(id)
		vAssert(vAnd(0 <= idc, idc < n), "pqiter/unchanged-yields-contents")
		vAssert(!seen[idc], "pqiter/unchanged-yields-each-once")
		seen[idc] = true
	}
	tag, structural := "none", false
	gone := -1
	switch op {
	case 1: // Update of an existing key to a lower / equal / higher priority
		tag = "update-existing"
		k := vNondetInt("k")
		vAssume(vAnd(0 <= k, k < n))
		q.Update(k, vNondet[vPrio]("newp"))
	case 2:
		tag, structural = "update-new", true
		q.Update(n, vNondet[vPrio]("newp"))
	case 3:
		tag, structural = "remove", true
		k := vNondetInt("k")
		vAssume(vAnd(0 <= k, k < n))
		if n == 0 {
			return
		}
		gone = vConcretize(k)
		q.Remove(gone)
	case 4:
		tag, structural = "pop", true
		if n == 0 {
			return
		}
		gone = vConcretize(q.Pop())
	}
	if jc == 0 && op != 0 {
		want := make([]bool, n+1)
		for i := 0; i < n; i++ {
			want[i] = i != gone
		}
		want[n] = op == 2
		vDrainFresh(next, want, "pqiter/"+tag)
		return
	}
	vDrainIDs(next, seen, jc, n, structural, "pqiter/"+tag)
}
