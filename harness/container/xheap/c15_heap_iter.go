package xheap

//verif:pkg ./container/xheap
//verif:case C15 quick VerifHeapIter 0..4 0..5
//verif:case C15 thorough VerifHeapIter 0..4 6..7
//verif:case C15 quick VerifPQIter 0..4 0..5
//verif:case C15 thorough VerifPQIter 0..4 6..7

// drain continues an iteration after a mid-iteration operation and checks snapshot-or-panic:
// every yielded element is a distinct member of the snapshot, the end is reported only after
// the whole snapshot has been yielded, otherwise the stopping event is a panic.
func vDrainIDs(next func() (int, bool), seen []bool, count int, n int, mustPanic bool, tag string) {
	ended := false
	for calls := 0; calls < n+3; calls++ {
		var id int
		var ok bool
		p := vTry(func() { id, ok = next() })
		if calls == 0 && mustPanic {
			vAssert(p, tag+"/next-call-panics-after-add-or-remove")
		}
		if p {
			vCover("iter-panics-" + tag)
			return
		}
		if !ok {
			ended = true
			break
		}
		vAssert(vAnd(0 <= id, id < len(seen)), tag+"/yields-snapshot-element")
		idc := vConcretize(id)
		if idc < 0 || idc >= len(seen) {
			return
		}
		vAssert(idc < n, tag+"/yields-snapshot-element")
		vAssert(!seen[idc], tag+"/yields-each-element-once")
		seen[idc] = true
		count++
	}
	vAssert(ended, tag+"/terminates")
	vAssert(count == n, tag+"/end-only-after-whole-snapshot")
	_, again := next()
	vAssert(!again, tag+"/end-is-sticky")
	vCover("iter-completes-" + tag)
}

// VerifHeapIter: Heap.Iterate with one mid-iteration operation after j >= 1 Next calls
// (j = 0 for op 0: plain iteration of an unchanged heap).
func VerifHeapIter(op int, n int) {
	h, _ := vSymHeap(n, 0)
	it := h.Iterate()
	seen := make([]bool, n+1)
	next := func() (int, bool) {
		x, ok := it.Next()
		return x.ID, ok
	}
	lo := 1
	if op == 0 {
		lo = 0
	}
	if n < lo {
		return
	}
	j := vNondetInt("consumed")
	vAssume(vAnd(lo <= j, j <= n))
	jc := vConcretize(j)
	for k := 0; k < jc; k++ {
		id, ok := next()
		vAssert(ok, "heapiter/unchanged-yields-all")
		idc := vConcretize(id)
		vAssert(vAnd(0 <= idc, idc < n), "heapiter/unchanged-yields-contents")
		vAssert(!seen[idc], "heapiter/unchanged-yields-each-once")
		seen[idc] = true
	}
	tag, structural := "none", false
	switch op {
	case 1:
		tag, structural = "push", true
		h.Push(vItem{P: vNondet[vPrio]("x"), ID: n})
	case 2:
		tag, structural = "pop", true
		h.Pop()
	case 3:
		tag = "grow"
		h.Grow(4)
	case 4:
		tag = "shrink"
		h.Shrink(0)
	}
	vDrainIDs(next, seen, jc, n, structural, "heapiter/"+tag)
}

// VerifPQIter: PriorityQueue.Iterate with Update (existing key: any new priority; new key),
// Remove, Pop in mid-iteration.
func VerifPQIter(op int, n int) {
	q, _ := vSymPQ(n, 0)
	it := q.Iterate()
	seen := make([]bool, n+1)
	next := func() (int, bool) { return it.Next() }
	lo := 1
	if op == 0 {
		lo = 0
	}
	if n < lo {
		return
	}
	j := vNondetInt("consumed")
	vAssume(vAnd(lo <= j, j <= n))
	jc := vConcretize(j)
	for k := 0; k < jc; k++ {
		id, ok := next()
		vAssert(ok, "pqiter/unchanged-yields-all")
		idc := vConcretize(id)
		vAssert(vAnd(0 <= idc, idc < n), "pqiter/unchanged-yields-contents")
		vAssert(!seen[idc], "pqiter/unchanged-yields-each-once")
		seen[idc] = true
	}
	tag, structural := "none", false
	switch op {
	case 1: // Update of an existing key to a lower / equal / higher priority
		tag = "update-existing"
		k := vNondetInt("k")
		vAssume(vAnd(0 <= k, k < n))
		q.Update(k, vNondet[vPrio]("newp"))
	case 2:
		tag, structural = "update-new", true
		q.Update(n, vNondet[vPrio]("newp"))
	case 3:
		tag, structural = "remove", true
		k := vNondetInt("k")
		vAssume(vAnd(0 <= k, k < n))
		q.Remove(k)
	case 4:
		tag, structural = "pop", true
		q.Pop()
	}
	vDrainIDs(next, seen, jc, n, structural, "pqiter/"+tag)
}
