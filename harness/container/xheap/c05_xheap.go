package xheap

//verif:pkg ./container/xheap
//verif:case C05 quick VerifHeapStep 0..4 0..7 0
//verif:case C05 quick VerifHeapStep 0..4 0..6 1
//verif:case C05 thorough VerifHeapStep 0..3 8..15 0
//verif:case C05 thorough VerifHeapStep 0..3 7..9 1
//verif:case C05 thorough VerifHeapStep 4 8..9 0
//verif:case C05 quick VerifHeapDrain 0..4 0..1
//verif:case C05 thorough VerifHeapDrain 5 0..1
//verif:case C05 quick VerifPQStep 0..6 0..7 0
//verif:case C05 quick VerifPQStep 0..6 0..5 1
//verif:case C05 quick VerifPQStep 7 0..4 0
//verif:case C05 quick VerifPQStep 7 0..3 1
//verif:case C05 thorough VerifPQStep 0..6 8..12 0
//verif:case C05 thorough VerifPQStep 0..6 6..7 1
//verif:case C05 thorough VerifPQStep 7 5..6 0
//verif:case C05 thorough VerifPQStep 7 4 1
//verif:case C05 quick VerifPQNew 0..4
//verif:case C05 quick VerifPQSeq 0..3

// heap element: ordered by P only (ties are free), ID is a concrete tag for multiset tracking
type vPrio = int8

type vItem struct {
	P  vPrio
	ID int
}

func vLessItem(order int) func(a, b vItem) bool {
	if order == 1 {
		return func(a, b vItem) bool { return a.P>>1 < b.P>>1 } // coarse order: many ties
	}
	return func(a, b vItem) bool { return a.P < b.P }
}

func vLessP(order int) func(a, b vPrio) bool {
	if order == 1 {
		return func(a, b vPrio) bool { return a>>1 < b>>1 }
	}
	return func(a, b vPrio) bool { return a < b }
}

// vSymHeap builds an arbitrary valid heap of n items through the public constructor: the initial
// slice is assumed heap-ordered, so heapify moves nothing.
func vSymHeap(n int, order int) (Heap[vItem], []vPrio) {
	less := vLessItem(order)
	items := make([]vItem, n)
	prio := make([]vPrio, n+1)
	for i := range items {
		items[i] = vItem{P: vNondet[vPrio]("p"), ID: i}
		prio[i] = items[i].P
		if i > 0 {
			vAssume(!less(items[i], items[(i-1)/2]))
		}
	}
	var h Heap[vItem]
	if order == 1 {
		h = NewCmp(func(a, b vItem) int {
			if less(a, b) {
				return -3 // (any negative number means "less": not only -1)
			} else if less(b, a) {
				return 5
			}
			return 0
		}, items)
	} else {
		h = New(less, items)
	}
	return h, prio
}

// vCheckHeap: heap order over the live array, and the multiset of IDs equals want (each once)
// with unchanged priorities.
func vCheckHeap(h Heap[vItem], order int, prio []vPrio, want []bool, tag string) {
	less := vLessItem(order)
	n := h.Len()
	cnt := 0
	for _, w := range want {
		if w {
			cnt++
		}
	}
	vAssert(n == cnt, tag+"/len")
	seen := make([]int, len(want))
	for i := 0; i < n; i++ {
		it := h.inner.Item(i)
		if i > 0 {
			vAssert(!less(it, h.inner.Item((i-1)/2)), tag+"/heap-order")
		}
		vAssert(vAnd(0 <= it.ID, it.ID < len(want)), tag+"/multiset")
		seen[it.ID]++
		vAssert(it.P == prio[it.ID], tag+"/items-intact")
	}
	for id, w := range want {
		if w {
			vAssert(seen[id] == 1, tag+"/multiset")
		} else {
			vAssert(seen[id] == 0, tag+"/multiset")
		}
	}
}

// VerifHeapStep: one operation on an arbitrary valid heap of n items.
func VerifHeapStep(op int, n int, order int) {
	less := vLessItem(order)
	if op == 4 { // New over an arbitrary (unordered) initial slice: heapify
		items := make([]vItem, n)
		prio := make([]vPrio, n)
		want := make([]bool, n)
		for i := range items {
			items[i] = vItem{P: vNondet[vPrio]("p"), ID: i}
			prio[i] = items[i].P
			want[i] = true
		}
		h := New(less, items)
		vCheckHeap(h, order, prio, want, "new")
		vCover("heap-new")
		return
	}
	h, prio := vSymHeap(n, order)
	want := make([]bool, n+1)
	for i := 0; i < n; i++ {
		want[i] = true
	}
	switch op {
	case 0: // Push
		x := vItem{P: vNondet[vPrio]("x"), ID: n}
		prio[n] = x.P
		h.Push(x)
		want[n] = true
		vCheckHeap(h, order, prio, want, "push")
		vCover("heap-push")
	case 1: // Pop
		var r vItem
		p := vTry(func() { r = h.Pop() })
		if n == 0 {
			vAssert(p, "pop/empty-panics")
			vCover("heap-pop-empty")
			return
		}
		vAssert(!p, "pop/no-panic")
		vAssert(vAnd(0 <= r.ID, r.ID < n), "pop/returns-held-item")
		id := vConcretize(r.ID)
		vAssert(r.P == prio[id], "pop/returns-held-item")
		for i := 0; i < n; i++ {
			vAssert(!less(vItem{P: prio[i]}, r), "pop/minimal")
		}
		want[id] = false
		vCheckHeap(h, order, prio, want, "pop")
		vCover("heap-pop")
	case 2: // Peek
		var r vItem
		p := vTry(func() { r = h.Peek() })
		if n == 0 {
			vAssert(p, "peek/empty-panics")
			vCover("heap-peek-empty")
			return
		}
		vAssert(!p, "peek/no-panic")
		id := vConcretize(r.ID)
		vAssert(r.P == prio[id], "peek/returns-held-item")
		for i := 0; i < n; i++ {
			vAssert(!less(vItem{P: prio[i]}, r), "peek/minimal")
		}
		vCheckHeap(h, order, prio, want, "peek")
		vCover("heap-peek")
	case 3: // Len, Grow, Shrink leave the contents alone
		vAssert(h.Len() == n, "len")
		h.Grow(3)
		vCheckHeap(h, order, prio, want, "grow")
		h.Shrink(0)
		vCheckHeap(h, order, prio, want, "shrink")
		vCover("heap-len")
	}
}

// VerifHeapDrain: pushing then draining an arbitrary heap returns everything in non-decreasing order.
func VerifHeapDrain(n int, order int) {
	less := vLessItem(order)
	h, _ := vSymHeap(n, order)
	h.Push(vItem{P: vNondet[vPrio]("x"), ID: n})
	var prev vItem
	for i := 0; i <= n; i++ {
		r := h.Pop()
		if i > 0 {
			vAssert(!less(r, prev), "drain/non-decreasing")
		}
		prev = r
	}
	vAssert(h.Len() == 0, "drain/empties")
	vAssert(vTry(func() { h.Pop() }), "drain/pop-empty-panics")
	vCover("heap-drain")
}

// ---- PriorityQueue

func vSymPQ(n int, order int) (PriorityQueue[int, vPrio], []vPrio) {
	less := vLessP(order)
	items := make([]KP[int, vPrio], n)
	prio := make([]vPrio, n+1)
	for i := range items {
		items[i] = KP[int, vPrio]{K: i, P: vNondet[vPrio]("p")}
		prio[i] = items[i].P
		if i > 0 {
			vAssume(!less(items[i].P, items[(i-1)/2].P))
		}
	}
	if order == 1 {
		return NewPriorityQueueCmp(func(a, b vPrio) int {
			if less(a, b) {
				return -3 // (any negative number means "less": not only -1)
			} else if less(b, a) {
				return 5
			}
			return 0
		}, items), prio
	}
	return NewPriorityQueue(less, items), prio
}

// vObservePQ: full observation against the model (present[k], prio[k]) for keys 0..len-1,
// plus heap order and exactness of the key->index map.
func vObservePQ(q PriorityQueue[int, vPrio], order int, present []bool, prio []vPrio, tag string) {
	less := vLessP(order)
	cnt := 0
	for k := range present {
		if present[k] {
			cnt++
		}
		vAssert(q.Contains(k) == present[k], tag+"/contains")
		if present[k] {
			vAssert(q.Priority(k) == prio[k], tag+"/priority")
		} else {
			vAssert(q.Priority(k) == 0, tag+"/priority-absent-is-zero")
		}
	}
	vAssert(q.Len() == cnt, tag+"/len")
	vAssert(len(q.m) == cnt, tag+"/map-size")
	n := q.inner.Len()
	for i := 0; i < n; i++ {
		it := q.inner.Item(i)
		if i > 0 {
			vAssert(!less(it.P, q.inner.Item((i-1)/2).P), tag+"/heap-order")
		}
		idx, ok := q.m[it.K]
		vAssert(vAnd(ok, idx == i), tag+"/map-exact")
	}
	if cnt > 0 {
		top := q.Peek()
		vAssert(vAnd(0 <= top, top < len(present)), tag+"/peek-held")
		t := vConcretize(top)
		vAssert(present[t], tag+"/peek-held")
		for k := range present {
			if present[k] {
				vAssert(!less(prio[k], prio[t]), tag+"/peek-minimal")
			}
		}
	} else {
		vAssert(vTry(func() { q.Peek() }), tag+"/peek-empty-panics")
	}
}

// VerifPQStep: one operation on an arbitrary valid queue holding keys 0..n-1 (key n is absent).
func VerifPQStep(op int, n int, order int) {
	less := vLessP(order)
	q, prio := vSymPQ(n, order)
	present := make([]bool, n+1)
	for i := 0; i < n; i++ {
		present[i] = true
	}
	k := vNondetInt("k")
	vAssume(vAnd(0 <= k, k <= n))
	switch op {
	case 0: // Update (present key: any new priority; absent key: insert)
		p := vNondet[vPrio]("newp")
		q.Update(k, p)
		kc := vConcretize(k)
		present[kc] = true
		prio[kc] = p
		vObservePQ(q, order, present, prio, "update")
		vCover("pq-update")
	case 1: // Remove (present or absent)
		q.Remove(k)
		kc := vConcretize(k)
		present[kc] = false
		vObservePQ(q, order, present, prio, "remove")
		vCover("pq-remove")
	case 2: // Pop
		var r int
		p := vTry(func() { r = q.Pop() })
		if n == 0 {
			vAssert(p, "pqpop/empty-panics")
			vCover("pq-pop-empty")
			return
		}
		vAssert(!p, "pqpop/no-panic")
		vAssert(vAnd(0 <= r, r < n), "pqpop/returns-held-key")
		rc := vConcretize(r)
		for i := 0; i < n; i++ {
			vAssert(!less(prio[i], prio[rc]), "pqpop/minimal")
		}
		present[rc] = false
		vObservePQ(q, order, present, prio, "pqpop")
		vCover("pq-pop")
	case 3: // observers only
		vObservePQ(q, order, present, prio, "observe")
		vCover("pq-observe")
	case 4: // Update to a lower priority than everything, then Pop returns that key
		if n == 0 {
			return
		}
		vAssume(k < n)
		p := vNondet[vPrio]("newp")
		for i := 0; i < n; i++ {
			vAssume(less(p, prio[i]))
		}
		q.Update(k, p)
		vAssert(q.Pop() == k, "update-lowest-then-pop")
		vCover("pq-update-pop")
	case 5: // Remove then Update of the same key re-inserts it
		q.Remove(k)
		p := vNondet[vPrio]("newp")
		q.Update(k, p)
		kc := vConcretize(k)
		present[kc] = true
		prio[kc] = p
		vObservePQ(q, order, present, prio, "remove-update")
		vCover("pq-remove-update")
	case 6: // Grow does not change the mapping
		q.Grow(4)
		vObservePQ(q, order, present, prio, "pqgrow")
		vCover("pq-grow")
	case 7: // two updates of two keys
		p1, p2 := vNondet[vPrio]("newp"), vNondet[vPrio]("newp")
		k2 := vNondetInt("k2")
		vAssume(vAnd(0 <= k2, k2 <= n))
		q.Update(k, p1)
		kc := vConcretize(k)
		present[kc], prio[kc] = true, p1
		q.Update(k2, p2)
		k2c := vConcretize(k2)
		present[k2c], prio[k2c] = true, p2
		vObservePQ(q, order, present, prio, "update2")
		vCover("pq-update2")
	}
}

// VerifPQNew: a queue built from an arbitrary initial list (keys from a 3-value domain, so
// duplicates occur) holds each distinct key once, with the priority of one of its occurrences.
func VerifPQNew(n int) {
	less := vLessP(0)
	items := make([]KP[int, vPrio], n)
	keys := make([]int, n)
	prios := make([]vPrio, n)
	for i := range items {
		keys[i] = vNondetInt("key")
		vAssume(vAnd(0 <= keys[i], keys[i] <= 2))
		prios[i] = vNondet[vPrio]("p")
		items[i] = KP[int, vPrio]{K: keys[i], P: prios[i]}
	}
	q := NewPriorityQueue(less, items)
	distinct := 0
	for k := 0; k <= 2; k++ {
		in := false
		for i := range keys {
			in = vOr(in, keys[i] == k)
		}
		vAssert(q.Contains(k) == in, "pqnew/contains")
		distinct += vIte(in, 1, 0)
		if q.Contains(k) {
			p := q.Priority(k)
			some := false
			for i := range keys {
				some = vOr(some, vAnd(keys[i] == k, prios[i] == p))
			}
			vAssert(some, "pqnew/priority-of-an-occurrence")
		}
	}
	vAssert(q.Len() == distinct, "pqnew/each-distinct-key-once")
	// heap order and map exactness
	for i := 0; i < q.inner.Len(); i++ {
		it := q.inner.Item(i)
		if i > 0 {
			vAssert(!less(it.P, q.inner.Item((i-1)/2).P), "pqnew/heap-order")
		}
		idx, ok := q.m[it.K]
		vAssert(vAnd(ok, idx == i), "pqnew/map-exact")
	}
	vCover("pq-new")
}

// VerifPQSeq: a bounded history from the empty queue (n symbolic operations), model-checked
// observation after every step; complements the inductive step with real histories.
func VerifPQSeq(n int) {
	less := vLessP(0)
	q := NewPriorityQueue[int, vPrio](less, nil)
	present := make([]bool, 3)
	prio := make([]vPrio, 3)
	for s := 0; s < n; s++ {
		k := vNondetInt("k")
		vAssume(vAnd(0 <= k, k <= 2))
		switch vChoose(3) {
		case 0:
			p := vNondet[vPrio]("p")
			q.Update(k, p)
			kc := vConcretize(k)
			present[kc], prio[kc] = true, p
		case 1:
			q.Remove(k)
			present[vConcretize(k)] = false
		case 2:
			if q.Len() > 0 {
				r := q.Pop()
				vAssert(vAnd(0 <= r, r <= 2), "pqseq/pop-held")
				rc := vConcretize(r)
				vAssert(present[rc], "pqseq/pop-held")
				for i := range present {
					if present[i] {
						vAssert(!less(prio[i], prio[rc]), "pqseq/pop-minimal")
					}
				}
				present[rc] = false
			}
		}
		vObservePQ(q, 0, present, prio, "pqseq")
	}
	vCover("pq-seq")
}
