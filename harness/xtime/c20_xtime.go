package xtime

import (
	"context"
	"time"
)

//verif:pkg ./xtime
// VerifSleepContext args: context kind (0 none, 1 deadline, 2 already cancelled, 3 cancelled concurrently, 4 deadline + concurrent cancel, 5 deadline + already cancelled)
//verif:case C20 quick VerifSleepContext 0..5 @arith=1 @noreplay=1
// VerifJitterTicker args: ticks to read, scenario (0 plain+Stop, 1 Reset then tick, 2 Stop racing a firing timer)
//verif:case C20 quick VerifJitterTicker 1 0..2 @fires=2 @arith=1 @noreplay=1
//verif:case C20 thorough VerifJitterTicker 2 0 @fires=3 @arith=1 @noreplay=1
//verif:case C20 thorough VerifJitterTicker 2 1..2 @fires=3 @arith=1 @noreplay=1
//verif:case C20 thorough VerifJitterTicker 3 0 @fires=4 @arith=1 @noreplay=1
//verif:case C20 quick VerifJitterArgs 0..2 @arith=1 @noreplay=1 @fires=1

// VerifSleepContext: d, the deadline and the clock are symbolic 64-bit values.
func VerifSleepContext(kind int) {
	d := time.Duration(vNondetInt("d"))
	vAssume(d < 1<<59) // ~18 years: keeps now+d inside int64 (the runtime saturates beyond that)
	t0 := time.Now()
	ctx := context.Background()
	var cancel context.CancelFunc = func() {}
	r := time.Duration(vNondetInt("untilDeadline"))
	hasDeadline := kind == 1 || kind == 4 || kind == 5
	switch kind {
	case 1, 4, 5:
		vAssume(vAnd(r > -(1<<40), r < 1<<59))
		ctx, cancel = context.WithDeadline(ctx, t0.Add(r))
	case 2:
		ctx, cancel = context.WithCancel(ctx)
		cancel()
	case 3:
		ctx, cancel = context.WithCancel(ctx)
	}
	if kind == 5 {
		// a deadline (possibly far beyond d) and a context that has been cancelled before the call
		cancel()
	}
	if kind == 3 || kind == 4 {
		go func() { cancel() }()
	}
	err := SleepContext(ctx, d)
	t1 := time.Now()
	if d <= 0 {
		vAssert(err == nil, "sleep/nonpositive-duration-returns-nil-at-once")
		vCover("sleep-nonpositive")
		cancel()
		return
	}
	if tooSoon, ok := err.(DeadlineTooSoonError); ok {
		vAssert(hasDeadline, "sleep/too-soon-only-with-a-deadline")
		vAssert(tooSoon.remaining < tooSoon.d, "sleep/too-soon-only-when-deadline-is-closer-than-d")
		vAssert(tooSoon.d == d, "sleep/too-soon-reports-d")
		vCover("sleep-too-soon")
	} else {
		if hasDeadline {
			// remaining <= r at the time of the call, so r < d means the deadline is certainly closer than d
			vAssert(!(r < d), "sleep/too-soon-reported-when-deadline-is-closer-than-d")
		}
		if err == nil {
			vAssert(t1.Sub(t0) >= d, "sleep/nil-only-after-at-least-d")
			vCover("sleep-slept")
		} else {
			vAssert(ctx.Err() != nil && err == ctx.Err(), "sleep/returns-the-context-error-when-context-ends-first")
			vCover("sleep-context-ended")
		}
	}
	cancel()
}

// VerifJitterTicker: symbolic d and jitter with d > 0, 0 <= jitter < d.
func VerifJitterTicker(ticks int, scenario int) {
	d := time.Duration(vNondetInt("d"))
	j := time.Duration(vNondetInt("jitter"))
	vAssume(vAnd(d > 0, vAnd(0 <= j, j < d)))
	vAssume(d < 1<<59)
	created := time.Now()
	var t *JitterTicker
	p := vTry(func() { t = NewJitterTicker(d, j) })
	vAssert(!p, "ticker/no-panic-for-documented-arguments")
	if p {
		return
	}
	minGap, from := d-j, created
	if scenario == 1 {
		d2 := time.Duration(vNondetInt("d2"))
		j2 := time.Duration(vNondetInt("jitter2"))
		vAssume(vAnd(d2 > 0, vAnd(0 <= j2, j2 < d2)))
		vAssume(d2 < 1<<59)
		// drop a tick that may already be buffered
		select {
		case <-t.C:
		default:
		}
		from = time.Now()
		p2 := vTry(func() { t.Reset(d2, j2) })
		vAssert(!p2, "ticker/reset-no-panic-for-documented-arguments")
		if p2 {
			return
		}
		// a tick sent under the old period just before Reset took effect may be buffered
		select {
		case <-t.C:
		default:
		}
		minGap = d2 - j2
	}
	prev := from
	for i := 0; i < ticks; i++ {
		if scenario == 2 && i == ticks-1 {
			break
		}
		tk := <-t.C
		if !(scenario == 1 && i == 0 && false) {
			vAssert(tk.Sub(prev) >= minGap, "ticker/ticks-at-least-d-minus-jitter-apart")
		}
		prev = tk
	}
	if scenario == 2 {
		// Stop racing the next firing timer: both orders are schedules
		go func() { t.Stop() }()
		vQuiesce()
	} else {
		t.Stop()
	}
	// a tick sent before Stop returned may still be buffered; after that nothing more may arrive
	select {
	case <-t.C:
	default:
	}
	vQuiesce()
	vAssert(len(t.C) == 0, "ticker/no-tick-after-stop-returned")
	vCover("ticker")
}

// VerifJitterArgs: out-of-contract arguments panic as documented.
func VerifJitterArgs(which int) {
	d := time.Duration(vNondetInt("d"))
	j := time.Duration(vNondetInt("jitter"))
	if which == 2 {
		// the full documented range, including durations near the top of int64: creating (and
		// immediately stopping) the ticker must not panic
		vAssume(vAnd(d > 0, vAnd(0 <= j, j < d)))
		var t *JitterTicker
		p := vTry(func() { t = NewJitterTicker(d, j) })
		vAssert(!p, "ticker/no-panic-for-documented-arguments")
		if !p {
			p2 := vTry(func() { t.Reset(d, j) })
			vAssert(!p2, "ticker/reset-no-panic-for-documented-arguments")
			t.Stop()
		}
		vCover("ticker-args-full-range")
		return
	}
	if which == 0 {
		vAssume(d <= 0)
	} else {
		vAssume(vAnd(d > 0, j >= d))
	}
	p := vTry(func() { NewJitterTicker(d, j) })
	vAssert(p, "ticker/out-of-contract-arguments-panic")
	vCover("ticker-args")
}

// VerifSleepTwice: two SleepContext calls in a row - the first one ended by a cancellation that
// arrives at an arbitrary moment (possibly in the same instant as its timer) - must not influence
// one another: the second returns nil only after at least its own d has elapsed.
//verif:case C20 quick VerifSleepTwice @arith=1 @noreplay=1 @fires=3
func VerifSleepTwice() {
	d1 := time.Duration(vNondetInt("d1"))
	d2 := time.Duration(vNondetInt("d2"))
	vAssume(vAnd(vAnd(d1 > 0, d1 < 1<<40), vAnd(d2 > 0, d2 < 1<<40)))
	ctx, cancel := context.WithCancel(context.Background())
	go func() { cancel() }()
	SleepContext(ctx, d1)
	t0 := time.Now()
	err := SleepContext(context.Background(), d2)
	t1 := time.Now()
	vAssert(err == nil, "sleep/second-call-with-a-live-context-returns-nil")
	vAssert(t1.Sub(t0) >= d2, "sleep/nil-only-after-at-least-d")
	vCover("sleep-twice")
}

// VerifTickerRestart: Reset of a stopped ticker (documented arguments) does not panic and
// ticking resumes with the new spacing.
//verif:case C20 quick VerifTickerRestart 0..1 @arith=1 @noreplay=1 @fires=3
func VerifTickerRestart(withTick int) {
	d := time.Duration(vNondetInt("d"))
	j := time.Duration(vNondetInt("jitter"))
	vAssume(vAnd(d > 0, vAnd(0 <= j, j < d)))
	vAssume(d < 1<<59)
	t := NewJitterTicker(d, j)
	if withTick == 1 {
		<-t.C
	}
	t.Stop()
	select {
	case <-t.C: // a tick sent before Stop returned may still be buffered
	default:
	}
	d2 := time.Duration(vNondetInt("d2"))
	j2 := time.Duration(vNondetInt("jitter2"))
	vAssume(vAnd(d2 > 0, vAnd(0 <= j2, j2 < d2)))
	vAssume(d2 < 1<<59)
	from := time.Now()
	p := vTry(func() { t.Reset(d2, j2) })
	vAssert(!p, "ticker/reset-no-panic-for-documented-arguments")
	if p {
		return
	}
	tk := <-t.C // (a ticker that stayed stopped would deadlock here)
	vAssert(tk.Sub(from) >= d2-j2, "ticker/ticks-at-least-d-minus-jitter-apart")
	t.Stop()
	vCover("ticker-restart")
}

// VerifJitterArm: the interval lemma at full bit-width. Whatever d > 0 and 0 <= jitter < d are -
// including durations at the top of int64, where d + offset wraps around - every timer the ticker
// arms (at construction, at Reset, and when it re-arms itself after a tick) is armed for at least
// d - jitter. A timer armed for less ticks early (a negative duration fires at once), so this is
// the spacing clause of C20 for the durations the time model's clock cannot hold (>= 2^59 ns).
// vLastTimerDuration() is the duration argument of the most recent time.AfterFunc / Timer.Reset.
// args: 0 construction, 1 construction then Reset with other arguments, 2 construction and one tick
//verif:case C20 quick VerifJitterArm 0..2 @arith=1 @noreplay=1 @fires=1
func VerifJitterArm(scenario int) {
	d := time.Duration(vNondetInt("d"))
	j := time.Duration(vNondetInt("jitter"))
	vAssume(vAnd(d > 0, vAnd(0 <= j, j < d)))
	t := NewJitterTicker(d, j)
	armed := time.Duration(vLastTimerDuration())
	vAssert(armed >= d-j, "ticker/timer-armed-for-at-least-d-minus-jitter")
	if scenario == 1 {
		d2 := time.Duration(vNondetInt("d2"))
		j2 := time.Duration(vNondetInt("jitter2"))
		vAssume(vAnd(d2 > 0, vAnd(0 <= j2, j2 < d2)))
		t.Reset(d2, j2)
		armed2 := time.Duration(vLastTimerDuration())
		vAssert(armed2 >= d2-j2, "ticker/timer-armed-for-at-least-d-minus-jitter")
	}
	if scenario == 2 {
		vQuiesce() // the timer fires once (@fires=1) and the ticker re-arms itself
		armed3 := time.Duration(vLastTimerDuration())
		vAssert(armed3 >= d-j, "ticker/timer-armed-for-at-least-d-minus-jitter")
		vAssert(len(t.C) == 1, "ticker/arm-harness-saw-the-tick")
	}
	t.Stop()
	vCover("ticker-arm")
}

// VerifSleepCancelled: "returns the context's error if the context ends first", under the
// discrete-event reading of the time model (@prompt=1: computation takes no time, the clock moves
// only when everybody is blocked, to the earliest due timer) - in the general model a goroutine may
// be descheduled for longer than d between arming the timer and the select, and then both arms are
// ready whatever ended first. The context is cancelled c after the call started (c symbolic), or
// has been cancelled before the call; it has no deadline, or one that is at least d away.
// c < d: the context's error, at c; c > d: nil, at d; already cancelled: the context's error at once.
// args: deadline (0 none, 1 at least d away), cancellation (0 after c, 1 before the call)
//verif:case C20 quick VerifSleepCancelled 0..1 0..1 @prompt=1 @arith=1 @noreplay=1 @fires=4
func VerifSleepCancelled(withDeadline int, before int) {
	d := time.Duration(vNondetInt("d"))
	c := time.Duration(vNondetInt("c"))
	vAssume(vAnd(vAnd(d > 0, d < 1<<40), vAnd(c >= 0, c < 1<<40)))
	t0 := time.Now()
	ctx, cancel := context.WithCancel(context.Background())
	if withDeadline == 1 {
		r := time.Duration(vNondetInt("untilDeadline"))
		vAssume(vAnd(r >= d, r < 1<<41))
		ctx, cancel = context.WithDeadline(context.Background(), t0.Add(r))
		vAssume(vOr(before == 1, r > c)) // the cancellation, not the deadline, is what ends the context
	}
	if before == 1 {
		cancel()
	} else {
		go func() {
			time.Sleep(c)
			cancel()
		}()
	}
	err := SleepContext(ctx, d)
	el := time.Since(t0)
	if before == 1 {
		vAssert(err == context.Canceled, "sleep/already-cancelled-context-returns-its-error")
		vAssert(el == 0, "sleep/already-cancelled-context-returns-at-once")
	} else {
		vAssert(vImplies(c < d, err == context.Canceled), "sleep/context-that-ends-first-is-not-slept-through")
		vAssert(vImplies(c < d, el == c), "sleep/returns-when-the-context-ends")
		vAssert(vImplies(c > d, err == nil), "sleep/nil-when-the-sleep-ends-first")
		vAssert(vImplies(err == nil, el == d), "sleep/nil-exactly-when-d-has-elapsed")
	}
	cancel()
	vCover("sleep-cancelled")
}

// VerifTickersConcurrent: tickers are independent objects; creating, resetting and stopping two
// of them from two goroutines (with jitter > 0, so that the random offset is drawn) is free of
// data races and panics. (The happens-before check covers the library's plain accesses and
// calls on an unsynchronised *rand.Rand; a report is replayed under the Go race detector.)
//verif:case C20 quick VerifTickersConcurrent @arith=1 @fires=0 @race=1
func VerifTickersConcurrent() {
	d := time.Duration(vNondetInt("d"))
	j := time.Duration(vNondetInt("jitter"))
	vAssume(vAnd(d > 1<<30, vAnd(0 < j, j < d))) // (no tick is read: @fires=0)
	vAssume(d < 1<<59)
	done := 0
	for g := 0; g < 2; g++ {
		go func() {
			p := vTry(func() {
				t := NewJitterTicker(d, j)
				t.Reset(d, j)
				t.Stop()
			})
			vAssert(!p, "ticker/no-panic-for-documented-arguments")
			vAtomic(func() { done++ })
		}()
	}
	vAwait(func() bool { return done == 2 })
	vCover("tickers-concurrent")
}
